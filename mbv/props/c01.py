"""C01 -- stable failure surface, termination, CLI outcome.  Specs: Surface.tla (layers with catch
policies, the environment raises any class at any stage), SurfaceGen.tla (single-fault cases with the
specification's outcome), SurfaceTrace.tla (validation of recorded exception flows).

1. TLC decides on the specification, exhaustively: Inv_Surface, Inv_MemberIsolation, Inv_Cli,
   Inv_WrapClass and termination (<>done under weak fairness) over entry points x extractor kinds x stages x
   classes x nesting; sensitivity runs (hypothetical breakages + the as-built deviation Cli!PartialStdout)
   show that none of the invariants is vacuous.
2. spec -> code (crash-point enumeration): SurfaceGen's single-fault cases are read from TLC's state dump;
   each one is concretised as exceptions of concrete classes raised by a sys.monitoring LINE callback at the
   real lines (stage from the AST) of the real layer functions while the real entry point runs on a valid
   document; the observed outcome must be one the dump lists for the case, and the recorded exception flow
   must be a behaviour of Surface (TLC, SurfaceTrace).
3. code -> spec (fuzzing): seeds x {identity, truncation, bit flips, bursts, zero / fill ranges, splices,
   inserts}, format A into extractor B (21 x 21), container-aware mutants, hostile archives; directly,
   through read_file, as archive member, as attachment, through cli.main (in process and in a fresh
   subprocess).  Every execution runs in a resource-limited worker; its exception-flow trace is validated
   by TLC.  A worker that had to be killed is a Timeout / WorkerDied event, for which SurfaceTrace has no
   action.
"""
from __future__ import annotations

import base64
import json
import os
import random
import threading
import time
from pathlib import Path

from .. import VERIF
from ..tlaval import iter_dump, to_tla
from ..tlc import MachineryError, run_tlc
from ..traces import validate
from .. import c01_mutators as M
from ..c01_layers import KINDS, LEGACY, MULTI
from ..c01_worker import FAMILY_CLASSES, OTHER_CLASSES, Pool

ENTRIES = ["direct", "readfile", "member", "rfmember", "attachment", "attmember", "cli", "climember"]
QUICK_KINDS = ["docx", "xls", "pdf", "html", "mbox", "odt", "mhtml", "plain", "archive"]
ZIP_KINDS = ["docx", "pptx", "xlsx", "odt", "ods", "odp", "odg", "odf", "epub"]
LOOP_ENTRIES = {"member", "rfmember", "attachment", "attmember", "climember"}
CLI_ENTRIES = {"cli", "climember"}
WORKERS = 12
KNOWN_SPIN = [("KF-C01-01", "Ole!VectorCountLoop"), ("KF-C01-02", "Pdf!XrefPrevCycle"),
              ("KF-C01-03", "Pdf!ParentCycleNoResources"), ("KF-C01-04", "Rtf!InfoRegexQuadratic"),
              ("KF-C01-05", "Rtf!FieldRegexQuadratic")]
OWN_ENTRY = {"ReadFile": ("readfile",), "ArchiveEntry": ("member",), "ArchiveLoop": ("member",),
             "Attachment": ("attachment",), "Cli": ("cli",)}


def _cfg(kinds, entries, maxfaults, local, dev=(), mut=(), invariants=True, live=True, spec="Spec"):
    ks = set(kinds) | {"archive"}
    s = (f"SPECIFICATION {spec}\nCONSTANTS\n Kinds = {to_tla(ks)}\n LegacyKinds = {to_tla(set(LEGACY) & ks)}\n"
         f" MultiKinds = {to_tla(set(MULTI) & ks)}\n Entries = {to_tla(set(entries))}\n MaxFaults = {maxfaults}\n"
         f" MaxMembers = 2\n AllowLocal = {'TRUE' if local else 'FALSE'}\n Deviations = {to_tla(set(dev))}\n"
         f" Mutations = {to_tla(set(mut))}\n")
    if invariants:
        s += ("INVARIANT TypeOK\nINVARIANT Inv_Surface\nINVARIANT Inv_MemberIsolation\nINVARIANT Inv_Cli\n"
              "INVARIANT Inv_WrapClass\nINVARIANT Inv_Decided\n")
    if live:
        s += "PROPERTY Termination\n"
    return s


TRACE_CFG = ("SPECIFICATION TraceSpec\nCONSTRAINT TraceAccept\nCONSTANTS\n Kinds = " + to_tla(set(KINDS)) +
             "\n LegacyKinds = " + to_tla(set(LEGACY)) + "\n MultiKinds = " + to_tla(set(MULTI)) +
             '\n Entries = {"direct"}\n MaxFaults = 0\n MaxMembers = 1\n AllowLocal = FALSE\n Deviations = {}\n'
             " Mutations = {}\n")


# ------------------------------------------------------------------------------------------ TLC theorems
def _theorems(ctx):
    ev, v = ctx.ev, ctx.v
    kinds = KINDS if ctx.thorough else GEN_KINDS
    r = run_tlc("Surface", _cfg(kinds, ENTRIES, 1, True), scratch=ctx.scratch, timeout=1500, heap="6g")
    ev.tlc(f"Surface: surface / isolation / CLI / wrap-class invariants + termination, {len(kinds)} kinds x 8 entry "
           "points x every stage x 8 classes, 1 environment raise, local recovery allowed", r)
    if r.violated:
        v.violation(what=f"Surface.tla: {r.violated} violated on the specification", observed=r.trace[-2:])
    if ctx.thorough:
        r = run_tlc("Surface", _cfg(["docx", "doc", "mbox"], ["direct", "member", "attachment", "cli"], 2, False),
                    scratch=ctx.scratch, timeout=1500, heap="6g")
        ev.tlc("Surface: same, 2 environment raises (a raise while an exception is handled / in a finally)", r)
        if r.violated:
            v.violation(what=f"Surface.tla (2 faults): {r.violated} violated on the specification", observed=r.trace[-2:])
    sens = [("NoWrapper", "Inv_Surface"), ("EntryReraises", "Inv_MemberIsolation"), ("WrongLegacyClass", "Inv_WrapClass"),
            ("CliNoCatch", None)]
    for mut, want in (sens if ctx.thorough else sens[:1]):
        rs = run_tlc("Surface", _cfg(["docx", "doc"], ENTRIES, 1, False, mut=[mut], live=False), scratch=ctx.scratch,
                     expect_fail=True, timeout=600)
        ev.tlc(f"Surface sensitivity: mutation {mut} must violate an invariant", rs, note="expected violation")
        if not rs.violated or (want and rs.violated != want):
            raise MachineryError(f"sensitivity run {mut}: expected {want or 'a violation'}, TLC says {rs.violated}")
    rs = run_tlc("Surface", _cfg(["docx"], ["cli"], 1, False, dev=["Cli!PartialStdout"], live=False), scratch=ctx.scratch,
                 expect_fail=True, timeout=600)
    ev.tlc("Surface as built before c01-cli-atomic-stdout (deviation Cli!PartialStdout): Inv_Cli must fail", rs,
           note="expected violation")
    if rs.violated != "Inv_Cli":
        raise MachineryError(f"deviation Cli!PartialStdout: expected Inv_Cli, TLC says {rs.violated}")
    # (mbv.tlc does not parse TLC's "Temporal property X was violated" line: recognise it in the error text)
    t0 = time.time()
    try:
        rs = run_tlc("Surface", _cfg(["doc", "pdf"], ["direct", "member"], 0, False,
                                     dev=[d for _, d in KNOWN_SPIN], invariants=False),
                     scratch=ctx.scratch, expect_fail=True, timeout=600)
        got = rs.violated
    except MachineryError as e:
        got = "Temporal" if "Temporal property Termination was violated" in str(e) else f"machinery: {str(e)[:200]}"
    ev.tlc_counts("Surface as built (open findings KF-C01-01..03, third-party loops): Termination must fail "
                  "(liveness counterexample: the frame spins)", 3, 3, time.time() - t0, note="expected violation")
    if got != "Temporal":
        raise MachineryError(f"deviations {KNOWN_SPIN}: expected a liveness counterexample, TLC says {got}")


GEN_KINDS = ["docx", "doc", "mbox", "mhtml", "html", "archive"]


def _rep(k):
    """the specification treats kinds uniformly apart from LegacyKinds / MultiKinds / SubCalls membership:
    SurfaceGen enumerates one representative per class, a concrete kind is looked up under its representative"""
    if k in ("-", "archive", "mhtml", "html", "mbox"):
        return k
    return "doc" if k in LEGACY else "docx"


def _plan_sig(plan):
    return tuple((f["t"], f["k"]) for f in plan), max([f["m"] for f in plan] + [0]), plan[-1]["ny"]


def _gen_cases(ctx, kinds):
    dump = ctx.scratch / "surfacegen.dump"
    r = run_tlc("SurfaceGen", _cfg(kinds, ENTRIES, 1, False, invariants=False, live=False, spec="GenSpec")
                + "INVARIANT GenTypeOK\n", scratch=ctx.scratch, dump=dump, timeout=1500, heap="6g")
    ctx.ev.tlc(f"SurfaceGen: single-fault cases with the specification's outcome ({len(kinds)} kinds)", r)
    path = dump if dump.exists() else Path(str(dump) + ".dump")
    cases = {}
    n_done = 0
    for s in iter_dump(path):
        if s["phase"] != "done":
            continue
        n_done += 1
        sig = _plan_sig([dict(f) for f in s["plan"]])
        fl = s["flog"]
        fault = None
        if len(fl) == 1:
            f = fl[0]
            fault = (f["d"], f["t"], f["st"], f["c"], f["y"], f["ml"])
        outcome = (s["out"], s["yielded"], s["stdout"], s["stderr"], s["exit"])
        cases.setdefault((sig, fault), set()).add(outcome)
    if not cases:
        raise MachineryError("SurfaceGen produced no finished case")
    ctx.log(f"SurfaceGen: {n_done} finished behaviours, {len(cases)} distinct (plan, fault) cases")
    return cases


# ------------------------------------------------------------------------------------------- crash points
def _ext_for(kind, sid):
    return M.seed_ext(sid, kind)


def _base_job(entry, kind, sid, members):
    j = {"entry": entry, "kind": kind, "src": {"seed": sid}, "ext": _ext_for(kind, sid), "approx_size": 0}
    if entry in LOOP_ENTRIES:
        j["members"] = members
    if entry in CLI_ENTRIES:
        j["cli_mode"] = "text"
    return j


def _trace_shape(evs):
    """first descent of Enter events = the plan; results per leaf instance."""
    plan = []
    for e in evs:
        if e["a"] != "Enter":
            break
        plan.append((e["t"], e["k"]))
    return tuple(plan)


def _fault_of(evs, members):
    """the first Raise of the trace as the fault key of SurfaceGen: (d, t, st, c, yields before, members left)."""
    stack = []
    y = 0
    child_enters = {}                       # depth of loop frame -> children entered so far
    for e in evs:
        a = e["a"]
        if a == "Enter":
            stack.append(e["t"])
            d = len(stack)
            if d >= 2 and stack[d - 2] in ("ArchiveLoop", "Attachment"):
                child_enters[d - 1] = child_enters.get(d - 1, 0) + 1
            if e["t"] in ("ArchiveLoop", "Attachment"):
                child_enters[d] = 0
        elif a in ("Return", "Unwind"):
            del stack[e["d"] - 1:]
        elif a == "Yield":
            y = min(y + 1, 3)
        elif a == "Raise":
            d = e["d"]
            loops = [i + 1 for i in range(d) if stack[i] in ("ArchiveLoop", "Attachment")]
            ml = members - child_enters.get(loops[-1], 0) if loops else 0
            return (d, stack[d - 1], e["st"], e["c"], y, ml)
    return None


def _outcome_of(evs):
    yl = min(sum(1 for e in evs if e["a"] == "Yield"), 3)
    last = evs[-1]
    if last["a"] == "Outcome":
        return (last["esc"], last["n"], "empty", 0, 9)
    if last["a"] == "CliOut":
        return ("Done", yl, last["out"], last["diag"], last["exit"])
    return None


def _strip(evs):
    return [{k: v for k, v in e.items() if k not in ("w", "ay")} for e in evs]


def _crash_runs(ctx, pool, kinds):
    rng = random.Random(ctx.seed * 7919 + 1)
    fam = sorted(FAMILY_CLASSES)
    # ---- dry runs: one per (entry, kind): where do the layer functions execute, what is the plan
    dry_jobs = []
    for k in kinds:
        if k == "archive":
            continue
        sid = M.SEEDS[k][0]
        for entry in ENTRIES:
            if entry in ("attmember",) and not ctx.thorough:
                continue
            j = _base_job(entry, k, sid, 2)
            j["op"] = "dry"
            dry_jobs.append(j)
    # every OTHER kind (quick tier): the extractor directly, a SAMPLE of its lines with all classes -- a handler whose
    # class list was narrowed or extended shows at any line; and every kind with the path argument absent
    light = [] if ctx.thorough else [k for k in KINDS if k not in kinds and k != "archive"]
    for k in light:
        j = _base_job("direct", k, M.SEEDS[k][0], 1)
        j.update(op="dry", _light=True)
        dry_jobs.append(j)
    for k in [x for x in KINDS if x != "archive"]:
        j = _base_job("direct", k, M.SEEDS[k][0], 1)
        j.update(op="dry", path_mode="none", _light=True, _nopath=True)
        dry_jobs.append(j)
    # cli --json / --json-unit reach the serialisers
    for mode in ("json", "unit"):
        j = _base_job("cli", "docx" if "docx" in kinds else kinds[0], M.SEEDS["docx" if "docx" in kinds else kinds[0]][0], 1)
        j.update(op="dry", cli_mode=mode)
        dry_jobs.append(j)
    # archive flavours: tar and the 7z fixture exercise the other loops
    for arch in ("tar", "tar.gz"):
        j = _base_job("member", "plain", "gen:txt", 2)
        j.update(op="dry", arch=arch)
        dry_jobs.append(j)
    j = {"op": "dry", "entry": "member", "kind": "plain", "src": {"seed": "fix:archives/test_archive.7z"},
         "raw_archive": True, "arch": "7z", "members": 1, "ext": "txt", "approx_size": 0}
    dry_jobs.append(j)
    dres = pool.run([{k2: v2 for k2, v2 in j.items() if not k2.startswith("_")} for j in dry_jobs])
    inj_jobs = []
    failed_dry = []
    n_lines = {"try": 0, "fin": 0, "pro": 0, "ofin": 0, "hdl": 0, "open": 0}
    seen_direct = set()
    for j, r in zip(dry_jobs, dres):
        if "machinery" in r or "targets" not in r:
            raise MachineryError(f"dry run failed: {j['entry']}/{j['kind']}: {r.get('machinery') or r}")
        last = r["ev"][-1]
        if r.get("killed") or (last["a"] == "Outcome" and (last["esc"] != "Done" or last["n"] == 0)) or \
                (last["a"] == "CliOut" and last["exit"] != 0) or last["a"] not in ("Outcome", "CliOut"):
            # the valid document does not come out under this entry point on THIS tree: an observation, not a machinery
            # failure -- its exception flow goes to TLC like every other execution (a family class is not C01's business,
            # anything else is rejected there); no crash points can be derived from it
            failed_dry.append((j, r))
            ctx.log(f"note: valid {j['kind']} document not extracted under entry {j['entry']}: {last}")
            continue
        j["_plan"] = _trace_shape(r["ev"])
        j["_n"] = r.get("n", 0)
        entry = j["entry"]
        targets = r["targets"]
        if j.get("_light"):
            cand = [tg for tg in targets if tg["t"] == "Extractor" and tg["st"] in ("try", "fin")]
            pre = [tg for tg in cand if not tg["ay"]]
            post = [tg for tg in cand if tg["ay"]]
            pick = pre[:1] + pre[-1:] + post[:1] + (rng.sample(pre, min(3, len(pre))) if pre else [])
            targets = list({(tg["fn"], tg["line"], tg["ay"], tg["inst"]): tg for tg in pick}.values())
        for tg in targets:
            st, t = tg["st"], tg["t"]
            n_lines[st] = n_lines.get(st, 0) + 1
            if st in ("ofin", "hdl"):
                continue                                   # input-independent bookkeeping / only reached while handling
            if st == "pro" and t in ("Cli", "Extractor", "ArchiveEntry"):
                continue                                   # argument parsing / prologue that does not touch the input
            if st == "pro" and t == "ReadFile":
                if tg["ay"]:
                    continue                               # the `with open(...)` epilogue after the last result
                classes = ["TooLarge", "NotSupported"]     # the bytes cannot raise anything else before the try
            elif st == "pro" and t == "Attachment":
                classes = ["NotSupported"]
            elif st == "pro":
                continue
            elif t == "Extractor" and j.get("_nopath"):
                classes = [rng.choice(OTHER_CLASSES), "MemoryError", "Encrypted", rng.choice(fam)]
            elif t == "Extractor":
                if entry == "direct" or (ctx.thorough and tg["inst"] == 1 and entry in ("member", "cli")):
                    classes = OTHER_CLASSES + fam
                else:
                    classes = [rng.choice(OTHER_CLASSES), rng.choice(OTHER_CLASSES), "Encrypted", rng.choice(fam)]
            elif entry in OWN_ENTRY.get(t, ()) or ctx.thorough:
                classes = OTHER_CLASSES + fam              # shared layers: completely under their own entry point
            else:
                classes = [rng.choice(OTHER_CLASSES), "Encrypted"]
            key = (tg["fn"], tg["line"], tg["ay"], tg["inst"], entry, j["kind"] if t == "Extractor" else j.get("arch", ""),
                   j.get("cli_mode", ""), j.get("path_mode", ""))
            if key in seen_direct:
                continue
            seen_direct.add(key)
            for c in sorted(set(classes), key=classes.index):
                ij = {k2: v2 for k2, v2 in j.items() if not k2.startswith("_") and k2 != "op"}
                ij.update(op="inject", target={"fn": tg["fn"], "line": tg["line"], "ay": tg["ay"], "hit": tg["hit"]},
                          exc=c, _tg=tg, _plan=j["_plan"], _members=j.get("members", 1), _dry_n=j["_n"])
                inj_jobs.append(ij)
    # the CLI's serialise / print stage: a value the encoder rejects (environment raise at Cli "ser")
    for k in [x for x in kinds if x != "archive"][: (len(kinds) if ctx.thorough else 4)]:
        for mode in ("json", "unit"):
            ij = _base_job("cli", k, M.SEEDS[k][0], 1)
            ij.update(op="fuzz", cli_mode=mode, poison=True, _poison=True, _plan=None, _members=1, _tg=None)
            inj_jobs.append(ij)
    ctx.log(f"crash points: {len(dry_jobs)} dry runs, line stages {n_lines}, {len(inj_jobs)} injection runs")
    t0 = time.time()
    ires = list(pool.run([{k2: v2 for k2, v2 in j.items() if not k2.startswith("_")} for j in inj_jobs],
                         progress=lambda a, b: ctx.log(f"  injections {a}/{b}") if a % 5000 == 0 else None))
    ctx.log(f"injection runs done in {time.time() - t0:.1f}s")
    ctx.ev.set(line_stages=n_lines)
    if len(failed_dry) > len(dry_jobs) // 2:
        raise MachineryError(f"{len(failed_dry)} of {len(dry_jobs)} valid documents are not extracted: binding broken? "
                             f"{failed_dry[0][1].get('ev', [])[-1:]}")
    for j, r in failed_dry:                      # validated by TLC together with the injection runs
        j2 = dict(j)
        j2.update(_tg=None, _plan=None, _members=j.get("members", 1), _drytrace=True)
        inj_jobs.append(j2)
        ires.append(r)
    return inj_jobs, ires


def _crash_compare(ctx, cases, inj_jobs, ires):
    v, ev = ctx.v, ctx.ev
    traces, meta = [], []
    n_pred = n_local = n_loop = n_notfired = n_nopred = 0
    for j, r in zip(inj_jobs, ires):
        if "machinery" in r:
            raise MachineryError(f"injection run failed: {r['machinery']}\n{r.get('tb', '')}")
        evs = _strip(r["ev"])
        tg = j["_tg"]
        where = (f"{tg['fn']}:+{tg['rel']} (line {tg['line']}, stage {tg['st']})" if tg else "cli serialise/print")
        desc = {"entry": j["entry"], "kind": j["kind"], "class": j.get("exc", "not-JSON value"), "at": where,
                "members": j.get("members", 1), "cli_mode": j.get("cli_mode", "")}
        traces.append({"id": f"inj{len(traces)}", "hdr": {"x": 1}, "ev": evs})
        meta.append({"desc": desc, "res": r, "job": j})
        if r.get("killed") or j.get("_drytrace"):
            if j.get("_drytrace"):
                desc["class"], desc["at"] = "(none: the valid document)", "no injection"
            continue
        if tg is not None and not r.get("injected"):
            n_notfired += 1
            continue
        # ---- compare with the outcome(s) SurfaceGen lists for this case
        if j.get("_poison"):
            plan = tuple((t, _rep(k)) for t, k in _trace_shape(evs))
            sig = (plan, 0, 1)
            fault = (1, "Cli", "try", "Other", min(sum(1 for e in evs if e["a"] == "Yield"), 3), 0)
        else:
            plan = tuple((t, _rep(k)) for t, k in j["_plan"])
            mm = j["_members"] if j["entry"] in LOOP_ENTRIES else 0
            leaf_ny = 2 if plan[-1][1] in MULTI else 1
            sig = (plan, mm, leaf_ny)
            fault = _fault_of(evs, j["_members"])
        if fault is None:
            n_notfired += 1
            continue
        d = fault[0]
        # the layer recovered by itself (an inner handler: read_html's fallback, read_pdf's decrypt probe, the
        # attachment router's MIME fallback): outcome is the layer's business, the flow is validated by TLC
        ri = next(i for i, e in enumerate(evs) if e["a"] == "Raise")
        nxt = evs[ri + 1] if ri + 1 < len(evs) else {"a": ""}
        absorbed_locally = (nxt["a"] == "Absorb" and nxt["d"] == d
                            and (fault[1] in ("Extractor", "ReadFile") or fault[2] == "pro"))
        if fault[1] == "ArchiveLoop":
            n_loop += 1
            continue                      # DON'T-CARE inside the archive loop: flow validated by TLC only
        if absorbed_locally:
            n_local += 1
            continue                      # recovered inside the layer: flow validated by TLC only
        want = cases.get((sig, fault))
        if want is None:
            # SurfaceGen has no such case (a plan it does not enumerate: 7z's two loop functions, mixed member
            # kinds of a fixture archive; or a stage the specification does not have, which TLC rejects below)
            n_nopred += 1
            continue
        got = _outcome_of(evs)
        n_pred += 1
        if got not in want:
            v.violation(what=f"outcome differs from the specification: {desc['class']} raised at {where}, entry "
                             f"{desc['entry']}, kind {desc['kind']}: observed (escaped, results, stdout, diag lines, exit) = "
                             f"{got}; escaping type {r.get('esc_type', '-')}",
                        case=desc, expected=sorted(want), observed={"outcome": got, "trace": _fmt(evs)}, where=where)
        else:
            ev.nontrivial((sig[0], fault[1], fault[2], fault[3], fault[4] > 0))
    if n_notfired > max(20, len(inj_jobs) // 50):
        raise MachineryError(f"{n_notfired} of {len(inj_jobs)} injections did not fire")
    ctx.log(f"crash points: {n_pred} outcomes compared with SurfaceGen, {n_local} recovered locally, "
            f"{n_loop} inside the archive loop (flow only), {n_nopred} without an enumerated case (flow only), "
            f"{n_notfired} not reached")
    ev.set(crash_points={"injections": len(inj_jobs), "compared_with_spec_outcome": n_pred, "local_recovery": n_local,
                         "archive_loop_internal": n_loop, "no_enumerated_case": n_nopred, "not_fired": n_notfired})
    return traces, meta


def _fmt(evs):
    return " ".join(e["a"] + "(" + ",".join(str(x) for k, x in e.items() if k != "a") + ")" for e in evs)[:900]


# --------------------------------------------------------------------------------------------- fuzzing
def _fuzz_jobs(ctx, kinds_all):
    rng = random.Random(ctx.seed * 104729 + 17)
    T = ctx.thorough
    jobs = []

    def add(entry, kind, src, **kw):
        j = {"op": kw.pop("op", "fuzz"), "entry": entry, "kind": kind, "src": src}
        sid = src.get("seed")
        j["ext"] = kw.pop("ext", None) or (_ext_for(kind, sid) if sid and not kw.get("foreign") else M.EXT[kind])
        kw.pop("foreign", None)
        j["approx_size"] = kw.pop("approx_size", None) or (len(M.seed_bytes(sid)) if sid else 0)
        if entry in LOOP_ENTRIES:
            j["members"] = kw.pop("members", rng.choice([1, 2]))
            j["arch"] = kw.pop("arch", rng.choice(["zip", "zip", "tar", "tar.gz"]))
        if entry in CLI_ENTRIES or entry == "clisub":
            j["cli_mode"] = kw.pop("cli_mode", rng.choice(["text", "json", "unit", "jsonbin"]))
        if entry == "direct" and j["op"] == "fuzz":
            # the optional path argument: real name, absent, empty -- the failure surface must not depend on it
            j["path_mode"] = kw.pop("path_mode", rng.choice(["real", "real", "none", "empty"]))
        j.update(kw)
        jobs.append(j)

    def spread(kind, src, i, **kw):
        """every input directly; a rotating share through the other entry points."""
        add("direct", kind, src, **kw)
        if kind == "archive":
            if i % 3 == 0:
                add("readfile", kind, src, **kw)
            if i % 11 == 0:
                add("cli", kind, src, **kw)
            if i % 13 == 0:
                add("attachment", kind, src, members=1, **kw)
            return
        if i % 3 == 0:
            add("readfile", kind, src, **kw)
        if i % 5 == 0:
            add("member" if i % 10 else "rfmember", kind, src, **kw)
        if i % 7 == 0:
            add("attachment", kind, src, **kw)
        if i % 9 == 0:
            add("cli" if i % 18 else "climember", kind, src, **kw)

    # ---- open findings KF-C01-01..03: one deterministic witness each, FIRST (each costs one worker its CPU budget)
    wb = 8.0                      # CPU budget of a known witness (it never comes back; a repaired one returns at once)
    add("direct", "doc", {"seed": M.SEEDS["doc"][0], "muts": [["olevec", 0x7FFFFFFF]]}, cpu_budget=wb)
    add("direct", "pdf", {"seed": M.SEEDS["plain"][0], "muts": [["const", "pdfprev"]]}, foreign=True, cpu_budget=wb)
    add("direct", "pdf", {"seed": M.SEEDS["plain"][0], "muts": [["const", "pdfparent"]]}, foreign=True, cpu_budget=wb)
    # KF-C01-04 / -05: quadratic RTF pre-scans; sizes at which they overrun any budget by far (100 KB = 29 s, 200 KB = 6.5 s)
    add("direct", "rtf", {"seed": M.SEEDS["plain"][0], "muts": [["run", "rtf_info", 400]]}, foreign=True, cpu_budget=wb,
        approx_size=410_000)
    add("direct", "rtf", {"seed": M.SEEDS["plain"][0], "muts": [["run", "rtf_field", 1000]]}, foreign=True, cpu_budget=wb,
        approx_size=1_030_000)
    if T:
        add("cli", "rtf", {"seed": M.SEEDS["plain"][0], "muts": [["run", "rtf_info", 400]]}, foreign=True, cpu_budget=wb,
            approx_size=410_000, cli_mode="text")
        add("cli", "pdf", {"seed": M.SEEDS["plain"][0], "muts": [["const", "pdfparent"]]}, foreign=True, cli_mode="text",
            cpu_budget=wb)
        add("member", "doc", {"seed": M.SEEDS["doc"][0], "muts": [["olevec", 0x7FFFFFFF]]}, members=1, arch="zip",
            cpu_budget=wb)
    per_seed = 420 if T else 5
    for kind in kinds_all:
        seeds = M.SEEDS[kind] if T else M.SEEDS[kind][:2]
        for sid in seeds:
            data = M.seed_bytes(sid)
            n = len(data)
            big = n > 500_000
            budget = per_seed // (6 if big else 1) + (8 if not big else 2)
            specs = [["id"]]
            offs = M.geometric_offsets(n)
            rng.shuffle(offs)
            specs += [["trunc", o] for o in offs[: max(3, budget // 3)]]
            for _ in range(max(2, budget // 4)):
                specs.append(["flip", rng.randrange(max(n, 1)), rng.randrange(8)])
            for _ in range(max(2, budget // 5)):
                specs.append(["burst", rng.randrange(max(n, 1)), rng.choice([2, 4, 16, 64, 512]), rng.randrange(1 << 30)])
            for _ in range(max(1, budget // 8)):
                specs.append([rng.choice(["zero", "fill"]), rng.randrange(max(n, 1)), rng.choice([1, 4, 32, 256, 4096])])
            for _ in range(max(1, budget // 10)):
                specs.append(["insert", rng.randrange(n + 1), rng.choice([1, 3, 64]), rng.randrange(1 << 30)])
                specs.append(["dup", rng.randrange(n + 1), rng.choice([1, 16, 300])])
            # structured regions: flips concentrated in the first 2 KiB (headers, directories, FAT, FIB)
            for _ in range(max(2, budget // 4)):
                specs.append(["flip", rng.randrange(min(max(n, 1), 2048)), rng.randrange(8)])
            # and in the last 512 bytes (ZIP end of central directory, PDF trailer / xref)
            for _ in range(max(1, budget // 8)):
                specs.append(["flip", max(0, n - 1 - rng.randrange(min(max(n, 1), 512))), rng.randrange(8)])
            for i, sp in enumerate(specs):
                spread(kind, {"seed": sid, "muts": [sp]}, i + rng.randrange(3))
            for _ in range(max(1, budget // 10)):
                k2 = rng.choice(kinds_all)
                s2 = rng.choice(M.SEEDS[k2])
                if len(M.seed_bytes(s2)) > 500_000 and not T:
                    continue
                spread(kind, {"seed": sid, "other": s2,
                              "muts": [["splice", rng.randrange(n + 1), rng.randrange(len(M.seed_bytes(s2)) + 1)]]},
                       rng.randrange(9))
            if kind in ZIP_KINDS or (kind == "archive" and M.seed_ext(sid, kind) == "zip"):
                combos = [(w, h) for w in M.ZIP_SHELL_WHICH for h in M.ZIP_SHELL_HOWS]
                rng.shuffle(combos)
                for w, h in combos[: (40 if T else 3)]:
                    spread(kind, {"seed": sid, "muts": [["zipshell", w, h, rng.randrange(1 << 30)]]}, rng.randrange(9))
                hows = list(M.ZIP_HDR_HOWS)
                rng.shuffle(hows)
                for h in hows[: (12 if T else 2)]:
                    for _ in range(3 if T else 1):
                        spread(kind, {"seed": sid, "muts": [["ziphdr", h, rng.randrange(1 << 30)]]}, rng.randrange(9))
                # a hostile part AND a damaged shell
                if T:
                    for w, h in combos[40:50]:
                        spread(kind, {"seed": sid, "muts": [["zipshell", w, h, rng.randrange(1 << 30)],
                                                            ["flip", rng.randrange(200), rng.randrange(8)]]}, rng.randrange(9))
    # ---- container-aware mutants of EMBEDDED raster images: the dimension sniffers (util/image_utils, the copies in
    #      docx / pptx / xlsx, doc's PNG chunk walker) meet hostile segment / chunk lengths inside a well-formed container
    himgs = sorted(M.HOSTILE_IMAGES)
    txt = M.SEEDS["plain"][0]

    def blip(n):
        return "pngblip" if n.startswith("p_") else "jpegblip"

    def media(n):
        return {"p": "image/png", "g": "image/gif", "b": "image/bmp"}.get(n[0], "image/jpeg")
    for i, n in enumerate(himgs):
        add("direct", "rtf", {"seed": txt, "muts": [["rtfpict", n, blip(n)]]}, foreign=True)
        add("direct", "epub", {"seed": txt, "muts": [["epubimg", n, media(n)]]}, foreign=True)
        if i % 4 == 0 or T:
            add(rng.choice(["readfile", "cli", "member", "attachment"]), rng.choice(["rtf", "epub"]),
                {"seed": txt, "muts": [["rtfpict", n, blip(n)]]} if i % 2 else {"seed": txt, "muts": [["epubimg", n, media(n)]]},
                foreign=True)
        # function level: every sniffer directly on the image bytes
        add("direct", "plain", {"seed": txt, "muts": [["himg", n]]}, foreign=True, op="sniff")
    zk = ["docx", "pptx", "xlsx", "odt", "odp", "ods", "odg"] if T else ["docx", "pptx", "xlsx", "odt"]
    for k in zk:
        picks = himgs if T else sorted(set(["j_len0", "j_len0_sof", "j_len1", "j_lenmax"] + rng.sample(himgs, 3)))
        for n in picks:
            add("direct", k, {"seed": M.SEEDS[k][0], "muts": [["zipimg", n]]})
    patch_seeds = [("ppt", "fix:legacy_ms/ppt_with_images.ppt"), ("xls", "fix:legacy_ms/xls_with_images.xls")]
    if T:
        patch_seeds += [("ppt", "fix:legacy_ms/eurouni2.ppt"), ("doc", "fix:legacy_ms/headings.doc")]
    for k, sid in patch_seeds:
        picks = himgs if T else ["j_len0", "j_len0_sof", "j_len1", "j_lenmax", "p_lenmax", "p_chunks0"]
        for n in picks:
            for nth in ((0, 1, 2) if T else (0,)):
                add("direct", k, {"seed": sid, "muts": [["imgpatch", n, nth]]})
    if T:       # byte-level mutants of the hostile and of valid images, into the sniffers
        pool_imgs = [("h", n) for n in himgs]
        for _ in range(600):
            tag, n = rng.choice(pool_imgs)
            ln = len(M.HOSTILE_IMAGES[n])
            mut = rng.choice([["flip", rng.randrange(ln), rng.randrange(8)], ["trunc", rng.randrange(ln + 1)],
                              ["burst", rng.randrange(ln), 4, rng.randrange(1 << 30)], ["zero", rng.randrange(ln), 2],
                              ["fill", rng.randrange(ln), 2]])
            add("direct", "plain", {"seed": txt, "muts": [["himg", n], mut]}, foreign=True, op="sniff")
    # ---- the same picture / record twice: identical DIB / PNG / JPEG blocks planted in a stream of a legacy .doc
    #      (adjacent, separated, three times, last copy cut short), spans of OLE streams copied over a later offset of
    #      the same stream (shell untouched), and the length-preserving "duplicate a span" operator on every format
    doc0 = M.SEEDS["doc"][0]
    for i, pk in enumerate(M.PICTURE_KINDS):
        for at in ((100, 500, 900) if T else (500,)):
            add("direct", "doc", {"seed": doc0, "muts": [["olepics", "WordDocument", pk, at]]})
        if i % 6 == 0 or T:
            add(rng.choice(["readfile", "cli", "member", "attachment"]), "doc",
                {"seed": doc0, "muts": [["olepics", "WordDocument", pk, rng.randrange(1000)]]})
        if T:
            add("direct", "doc", {"seed": "fix:legacy_ms/headings.doc", "muts": [["olepics", "any", pk, rng.randrange(1000)]]})
            add("direct", "doc", {"seed": doc0, "muts": [["olepics", "Data", pk, rng.randrange(1000)]]})
    ole_seeds = [("doc", doc0), ("ppt", "fix:legacy_ms/slide_with_notes.ppt"), ("xls", "fix:legacy_ms/mwe.xls"),
                 ("ppt", "fix:legacy_ms/ppt_with_images.ppt"), ("xls", "fix:legacy_ms/xls_with_images.xls")]
    if T:
        ole_seeds += [("doc", "fix:legacy_ms/headings.doc"), ("msg", "fix:mails/basic_email.msg")]
    for k, sid in ole_seeds:
        for _ in range(40 if T else 3):
            add("direct", k, {"seed": sid, "muts": [["oledup", rng.choice(["any", "any", "WordDocument", "Data", "Pictures",
                                                                           "Workbook", "PowerPoint Document", "1Table"]),
                                                     rng.randrange(1 << 24), rng.randrange(64, 4097),
                                                     rng.choice([0, 0, rng.randrange(1, 5000)])]]})
    for k in kinds_all:
        for sid in (M.SEEDS[k] if T else M.SEEDS[k][:1]):
            n0 = len(M.seed_bytes(sid))
            if n0 < 200 or (n0 > 500_000 and not T):
                continue
            for j in range(20 if T else 2):
                spread(k, {"seed": sid, "muts": [["dupspan", rng.randrange(n0), rng.randrange(64, 4097), rng.randrange(n0)]]},
                       rng.randrange(9) if T else 1)
    # ---- compressed single files that are NOT tar archives (the router sends .gz / .bz2 / .xz to the archive
    #      extractor), damaged compressed tars: through the CLI the diagnostic must stay ONE line
    tar0 = "fix:archives/test_archive.tar"
    contents = [("text", {"seed": txt, "muts": []}), ("docx", {"seed": M.SEEDS["docx"][0], "muts": []}),
                ("garbage", {"seed": txt, "muts": [["const", "latin"]]}), ("empty", {"seed": txt, "muts": [["const", "empty"]]})]
    for cname, src0 in contents:
        for comp, exts in (("gz", ["gz", "tgz", "tar.gz"]), ("bz2", ["bz2", "tbz2", "tar.bz2"]), ("xz", ["xz", "txz", "tar.xz"])):
            src1 = {"seed": src0["seed"], "muts": src0["muts"] + [["compress", comp]]}
            add("cli", "archive", src1, ext=exts[0], cli_mode="text")
            if T or cname == "text":
                add("readfile", "archive", src1, ext=exts[0])
                add("direct", "archive", src1, ext=exts[0])
                add("cli", "archive", src1, ext=rng.choice(exts[1:]), cli_mode=rng.choice(["json", "unit"]))
    for comp, ext in (("gz", "tgz"), ("bz2", "tbz2"), ("xz", "txz")):
        ln = 200
        for _ in range(8 if T else 2):
            dmg = rng.choice([["flip", rng.randrange(ln), rng.randrange(8)], ["trunc", rng.randrange(12, ln)],
                              ["burst", rng.randrange(20, ln), 8, rng.randrange(1 << 30)], ["zero", rng.randrange(10, ln), 16]])
            add(rng.choice(["cli", "cli", "readfile"]), "archive", {"seed": tar0, "muts": [["compress", comp], dmg]}, ext=ext,
                cli_mode="text")
    # ---- structures that point to themselves, per container format: 7z encoded header that decodes to itself / two
    #      that decode to each other, PDF objects (ObjStm, /Length, form XObject) referring to themselves, OLE2 FAT / mini-FAT /
    #      directory cycles, ZIP records whose offsets point at themselves (cdself / eocdself are among ZIP_HDR_HOWS)
    for nm_ in sorted(M.SELFREF):
        k_, e_ = M.SELFREF_KIND[nm_], M.SELFREF_EXT[nm_]
        src_ = {"seed": txt, "muts": [["selfref", nm_]]}
        add("direct", k_, src_, ext=e_, foreign=True)
        add("readfile", k_, src_, ext=e_, foreign=True)
        add("cli", k_, src_, ext=e_, foreign=True, cli_mode="text")
        if T:
            add("attachment", k_, src_, ext=e_, foreign=True, members=1)
    for k, sid in [("doc", M.SEEDS["doc"][0]), ("xls", "fix:legacy_ms/mwe.xls"), ("ppt", "fix:legacy_ms/slide_with_notes.ppt")] + \
                  ([("msg", "fix:mails/basic_email.msg"), ("xls", "fix:legacy_ms/xls_with_images.xls")] if T else []):
        for how in M.OLE_CYCLES:
            for rs_ in ((1, 2, 3, 4) if T else (1, 2)):
                add("direct", k, {"seed": sid, "muts": [["olecycle", how, rs_]]})
    for k in (ZIP_KINDS + ["archive"] if T else ["docx", "archive"]):
        sid = M.SEEDS[k][0]
        for how in ("cdself", "eocdself"):
            for rs_ in ((1, 2, 3) if T else (1,)):
                add("direct", k, {"seed": sid, "muts": [["ziphdr", how, rs_]]})
    # ---- read_file's own parameters as outcome classes: the size guard (below / at / above the limit, disabled) and the
    #      routing error run BEFORE the wrapping try and must produce family members themselves
    for k in (kinds_all if T else ["docx", "pdf", "plain", "xls", "archive"]):
        sid = M.SEEDS[k][0]
        n0 = len(M.seed_bytes(sid))
        if n0 > 500_000 and not T:
            continue
        for lim in (1, max(1, n0 - 1), n0, n0 + 1, 0):
            add("readfile", k, {"seed": sid}, max_file_size=lim)
        add("readfile", k, {"seed": sid, "muts": [["trunc", n0 // 2]]}, max_file_size=16)
    for ext_ in ("xyz", "bin", "", "docx.bak"):
        add("readfile", "plain", {"seed": txt}, ext=ext_, foreign=True)
    # ---- HISTORIES: a failing call on one thread, then a healthy call of the same (and of another) kind on a fresh
    #      thread of the same process -- what the first leaves behind (locks, patches, caches) must not block the second
    healthy = {k: {"kind": k, "entry": "direct", "src": {"seed": M.SEEDS[k][0]}, "ext": _ext_for(k, M.SEEDS[k][0])}
               for k in kinds_all}
    for k in kinds_all:
        sid = M.SEEDS[k][0]
        n0 = len(M.seed_bytes(sid))
        if n0 > 500_000 and not T:
            continue
        fails = [[["trunc", n0 // 2]], [["flip", rng.randrange(min(n0, 512)), rng.randrange(8)], ["trunc", max(1, n0 * 3 // 4)]]]
        if T:
            fails += [[["burst", rng.randrange(n0), 64, rng.randrange(1 << 30)]], [["trunc", max(1, n0 // 10)]]]
        for f_ in fails:
            first = {"kind": k, "entry": "direct", "src": {"seed": sid, "muts": f_}, "ext": _ext_for(k, sid)}
            jobs.append({"op": "seq", "entry": "direct", "kind": k, "src": first["src"], "approx_size": n0,
                         "steps": [first, healthy[k], healthy["pdf" if k != "pdf" else "docx"]]})
    for nm_ in sorted(M.SELFREF):                       # every hand-built failing PDF / 7z first, then healthy documents
        k_ = M.SELFREF_KIND[nm_]
        first = {"kind": k_, "entry": "direct", "src": {"seed": txt, "muts": [["selfref", nm_]]}, "ext": M.SELFREF_EXT[nm_]}
        jobs.append({"op": "seq", "entry": "direct", "kind": k_, "src": first["src"], "approx_size": 500,
                     "steps": [first, healthy["pdf"], healthy["docx"] if k_ == "pdf" else healthy["archive"]]})
    for sid in ([M.PROTECTED["pdf"]] + (["fix:pdf/wirecard-annual-report-2018-page190.pdf"] if T else [])):
        first = {"kind": "pdf", "entry": "direct", "src": {"seed": sid}, "ext": "pdf"}
        jobs.append({"op": "seq", "entry": "direct", "kind": "pdf", "src": first["src"], "approx_size": 60000,
                     "steps": [first, healthy["pdf"], first, healthy["pdf"]]})
    # ---- inputs that make third-party readers TALK (xlrd / olefile / pypdf notes and warnings): stray bytes after the end of
    #      a legacy file, the bare stream without its OLE container; through the CLI stdout must be the result or empty
    talk = [("xls", "fix:legacy_ms/mwe.xls", "Workbook"), ("doc", M.SEEDS["doc"][0], "WordDocument"),
            ("ppt", "fix:legacy_ms/slide_with_notes.ppt", "PowerPoint Document"), ("pdf", "gen:pdf", None), ("msg", None, None)]
    if T:
        talk += [("xls", "fix:legacy_ms/xls_with_images.xls", "Workbook"), ("xls", "fix:legacy_ms/pb_2011_1_gen_web.xls", "Workbook")]
    for k, sid, stream in talk:
        if sid is None:
            continue
        n0 = len(M.seed_bytes(sid))
        variants = [[["append", n_, 7]] for n_ in (1, 7, 100, 511, 4096)] + [[["trunc", n0 - 1]], [["trunc", n0 - 200]]]
        if stream:
            variants += [[["olestream", stream]], [["olestream", stream], ["append", 3, 1]], [["olestream", stream], ["trunc", 600]]]
        for vi, mu in enumerate(variants):
            add("cli", k, {"seed": sid, "muts": mu}, cli_mode=("text", "json", "unit")[vi % 3])
            if T or vi % 4 == 0:
                add("direct", k, {"seed": sid, "muts": mu})
    # ---- the hand-written record / signature scanners: (a) an unrecognised but well-formed record between recognised ones
    #      (Mac PICT blip, unknown atom, picture with a flipped signature byte), (b) 32-bit length fields at the signed /
    #      unsigned boundaries, edited in place inside the OLE stream (shell untouched)
    rec_seeds = [("xls", "fix:legacy_ms/xls_with_images.xls", "Workbook", ["blip", "art"]),
                 ("ppt", "fix:legacy_ms/slide_with_notes.ppt", "PowerPoint Document", ["tree", "art"]),
                 ("ppt", "fix:legacy_ms/ppt_with_images.ppt", "Pictures", ["blip", "tree"]),
                 ("doc", doc0, "Data", ["art", "tree"])]
    if T:
        rec_seeds += [("ppt", "fix:legacy_ms/ppt_with_images.ppt", "PowerPoint Document", ["tree", "art"]),
                      ("ppt", "fix:legacy_ms/eurouni2.ppt", "Pictures", ["blip"]), ("doc", doc0, "WordDocument", ["art"]),
                      ("xls", "fix:legacy_ms/xls_with_images.xls", "Workbook", ["tree"])]
    for k, sid, stream, picks in rec_seeds:
        for pick in picks:
            for kk in ([0, 1, 2, 5, 17, 60] + [rng.randrange(4000) for _ in range(20 if T else 2)]):
                hows = ["type", "sig"] + (M.LEN_BOUNDARY if (T or kk in (0, 1)) else [0xFFFFFFF8, 0x80000000, 0])
                for how in hows:
                    add("direct", k, {"seed": sid, "muts": [["olerec", stream, pick, kk, how]]})
    # ---- (c) 0.7 MB runs of almost-matching prefixes for every regex / scanner that looks at the input before parsing it
    for nm_, k in sorted(M.RUNS.items()):
        kb_ = M.RUN_KB.get(nm_, 700)
        add("direct", k, {"seed": txt, "muts": [["run", nm_, kb_]]}, foreign=True, approx_size=kb_ * 1030)
        if T:
            add(rng.choice(["readfile", "cli", "member"]), k, {"seed": txt, "muts": [["run", nm_, min(1000, kb_ * 2)]]},
                foreign=True, approx_size=1_030_000)
    # ---- formula-bearing documents: one OMML construct nested deep (the converter is recursive), DOCX and PPTX
    ok_ = [k_ for k_ in M.OMML_NEST]
    for k in ("docx", "pptx"):
        for ci, c_ in enumerate(ok_):
            depths = (3, 48, 400) if T else ((48,) if c_ != "mix" else (3, 48))
            for dp in depths:
                add("direct", k, {"seed": M.SEEDS[k][0], "muts": [["omml", c_, dp, (ci + dp) % 2]]})
            if T or c_ in ("d", "mix"):
                add(rng.choice(["readfile", "cli", "member"]), k, {"seed": M.SEEDS[k][0], "muts": [["omml", c_, 48, 0]]})
    # ---- the CLI for every outcome class: 0 / 1 / n results, and results whose text the output stream cannot take
    #      (lone surrogate from charset=unicode-escape) as first / later / only result: all or nothing on stdout
    for which, ext_ in sorted(M.SURR_INPUTS.items()):
        knd = {"mbox": "mbox", "html": "html"}.get(ext_, "archive")
        src_ = {"seed": txt, "muts": [["surr", which]]}
        for mode in (("text", "json", "unit") if T else ("text",)):
            add("cli", knd, src_, ext=ext_, foreign=True, cli_mode=mode)
        add("readfile", knd, src_, ext=ext_, foreign=True)
        if knd != "archive":
            add("direct", knd, src_, ext=ext_, foreign=True)
            add("attachment", knd, src_, ext=ext_, foreign=True, members=2)
    for c_ in ("empty", "nul", "mboxfrom"):              # mailboxes / archives with no result at all
        add("cli", "mbox", {"seed": txt, "muts": [["const", c_]]}, foreign=True, cli_mode="text")
    # ---- every extractor FAILING with path absent / empty / real (truncated own seed, foreign bytes, container shell)
    for b in kinds_all:
        sid = M.SEEDS[b][0]
        n0 = len(M.seed_bytes(sid))
        if n0 > 500_000 and not T:
            fails = [{"seed": txt, "muts": [["const", "ole512"]]}, {"seed": txt, "muts": [["const", "latin"]]}]
        else:
            fails = [{"seed": sid, "muts": [["trunc", n0 // 2]]}, {"seed": sid, "muts": [["trunc", max(1, n0 // 10)]]},
                     {"seed": txt, "muts": [["const", "latin"]]}]
        if b in ZIP_KINDS:
            fails.append({"seed": sid, "muts": [["zipshell", "main", "drop", 1]]})       # package without its main part
            fails.append({"seed": sid, "muts": [["zipshell", "content_types", "drop", 1]]})
        for f in fails:
            for pm in ("none", "empty", "real"):
                add("direct", b, f, foreign=True, path_mode=pm)
    # ---- hostile TOKENS of the hand-written tokenisers, planted in context (RTF control words / symbols with malformed
    #      parameters, HTML character references, MIME encoded-words and header fields, mbox separators)
    plant_seeds = [("rtf", "gen:rtf"), ("html", "gen:html"), ("mhtml", "gen:mhtml"), ("eml", M.SEEDS["eml"][0]),
                   ("mbox", M.SEEDS["mbox"][0]), ("plain", "gen:json")]
    if T:
        plant_seeds += [("rtf", "fix:legacy_ms/2025.144.un.rtf"), ("html", "fix:html/sample.html")]
    for k, sid in plant_seeds:
        fam_ = M.PLANT_FAMILY[k]
        for ti in range(len(M.TOKENS[fam_])):
            poss = [rng.randrange(1 << 20) for _ in range(5 if T else 1)] + ([-1, -2] if (T or k in ("rtf", "html")) else [-1])
            if k in ("mhtml", "plain") and not T and ti % 3:
                continue
            for pos in poss:
                add("direct", k, {"seed": sid, "muts": [["plant", fam_, ti, pos]]})
            if T or ti % 8 == 0:
                add(rng.choice(["readfile", "cli", "member", "attachment"]), k,
                    {"seed": sid, "muts": [["plant", fam_, ti, rng.randrange(1 << 20)]]})
    # ---- numeric fields that size an allocation / a loop set to values that fail at once (2**60 elements, "x", -1):
    #      the extractor meets MemoryError / OverflowError / ValueError from its own code -- family clause per entry point
    for fi, (k, part, pat, repl) in enumerate(M.COUNT_FIELDS):
        vals = M.BIG if T else [M.BIG[0], M.BIG[5], M.BIG[(fi % 7) + 1]]
        for val in vals:
            src_ = {"seed": M.SEEDS[k][0], "muts": [["zipsub", part, pat, repl.replace("{N}", val), 1 if fi % 2 == 0 else 0]]}
            add("direct", k, src_)
            if T or val == M.BIG[0]:
                add(rng.choice(["readfile", "member", "attachment", "cli"]), k, src_)
    # ---- names that would break a one-line diagnostic if echoed: ZIP members flagged as encrypted, archive members,
    #      attachments, OOXML parts -- through the CLI (one stderr line) and the other entry points
    for i, nm_ in enumerate(M.HOSTILE_ECHO_NAMES):
        src_ = {"seed": txt, "muts": [["zipenc", [nm_, "plain.txt"] if i % 2 else [nm_]]]}
        add("cli", "archive", src_, ext="zip", cli_mode="text")
        if T or i % 3 == 0:
            add("readfile", "archive", src_, ext="zip")
            add("direct", "archive", src_, ext="zip")
            add("cli", "archive", src_, ext="zip", cli_mode="json")
        for arch in (("zip", "tar", "tar.gz") if T else ("zip", "tar")):
            # all members fail (truncated docx) -> "No extraction results" / per-member handling with a hostile name
            add("climember", "docx", {"seed": M.SEEDS["docx"][0], "muts": [["trunc", 40]]}, member_names=[nm_ + ".docx"],
                members=1, arch=arch, cli_mode="text")
        add("attachment", "docx", {"seed": M.SEEDS["docx"][0], "muts": [["trunc", 40]]}, att_names=[nm_ + ".docx"], members=1)
    for k in (ZIP_KINDS if T else ["docx", "xlsx", "odt"]):
        add("cli", k, {"seed": M.SEEDS[k][0], "muts": [["zipshell", "main", "nlname", 1]]}, cli_mode="text")
        add("cli", k, {"seed": M.SEEDS[k][0], "muts": [["zipshell", "main", "nlname", 1], ["zipshell", "main", "drop", 1]]},
            cli_mode="text")
    # ---- format A routed to extractor B (21 x 21): the extractor function directly, and by file name
    pairs = [(a, b) for a in kinds_all for b in kinds_all if a != b]
    for a, b in pairs:
        sid = M.SEEDS[a][0]
        if len(M.seed_bytes(sid)) > 500_000 and not T and rng.random() < 0.7:
            continue
        add("direct", b, {"seed": sid}, foreign=True)
        if T or rng.random() < 0.15:
            add(rng.choice(["readfile", "member", "attachment", "cli"]), b, {"seed": sid}, foreign=True)
    # ---- degenerate constants into every extractor
    consts = sorted(c for c in M.CONSTS if c not in ("pdfprev", "pdfparent"))     # those two: witnesses above
    native = {"rtf": "rtf", "pdf": "pdf", "htm": "html", "xml": "html", "eml": "eml", "mbo": "mbox", "7z": "archive", "tar": "archive",
              "gz": "archive", "bz": "archive", "xz": "archive", "pk": "archive", "ole": "doc", "utf": "plain", "lat": "plain"}
    for c in consts:                          # every degenerate constant at least into the extractor of its own format
        for pre, b in native.items():
            if c.startswith(pre):
                add("direct", b, {"seed": M.SEEDS["plain"][0], "muts": [["const", c]]}, foreign=True)
                if c.startswith("ole"):
                    for b2 in ("ppt", "xls", "msg"):
                        add("direct", b2, {"seed": M.SEEDS["plain"][0], "muts": [["const", c]]}, foreign=True)
                break
    for b in kinds_all:
        cs = consts if T else rng.sample(consts, 6)
        for c in cs:
            add("direct", b, {"seed": M.SEEDS["plain"][0], "muts": [["const", c]]}, foreign=True)
            if T and rng.random() < 0.3:
                add(rng.choice(["readfile", "member", "cli", "attachment"]), b,
                    {"seed": M.SEEDS["plain"][0], "muts": [["const", c]]}, foreign=True)
    # ---- password-protected fixtures through every entry point
    for k, sid in sorted(M.PROTECTED.items()):
        for entry in (["direct", "readfile", "cli"] if k == "archive" else
                      ["direct", "readfile", "member", "attachment", "cli", "climember"]):
            add(entry, k, {"seed": sid})
        if T:
            data = M.seed_bytes(sid)
            for _ in range(25):
                add("direct", k, {"seed": sid, "muts": [["flip", rng.randrange(len(data)), rng.randrange(8)]]})
    # ---- valid archives with hostile members / names
    names = list(M.HOSTILE_MEMBER_NAMES)
    for i in range(60 if T else 6):
        k = rng.choice([x for x in kinds_all if x != "archive"])
        sid = rng.choice(M.SEEDS[k][:2])
        if len(M.seed_bytes(sid)) > 500_000:
            continue
        n = len(M.seed_bytes(sid))
        mut = rng.choice([["id"], ["trunc", rng.randrange(n + 1)], ["flip", rng.randrange(max(n, 1)), rng.randrange(8)],
                          ["burst", rng.randrange(max(n, 1)), 64, rng.randrange(1 << 30)]])
        mn = [rng.choice(names) if rng.random() < 0.5 else f"m{j}.{M.EXT[k]}" for j in range(rng.choice([1, 2, 3]))]
        add(rng.choice(["member", "rfmember", "climember", "attmember"]), k, {"seed": sid, "muts": [mut]},
            member_names=mn, members=len(mn), arch=rng.choice(["zip", "tar", "tar.gz", "tar.bz2", "tar.xz"]))
    # ... the shape of KF-C01-01 below the domain's count must simply succeed
    add("direct", "doc", {"seed": M.SEEDS["doc"][0], "muts": [["olevec", 50000]]})
    # ---- the CLI in a fresh interpreter (real stdout / stderr / exit status)
    subs = []
    for i in range(160 if T else 10):
        k = rng.choice(kinds_all)
        sid = rng.choice(M.SEEDS[k][:2])
        n = len(M.seed_bytes(sid))
        if n > 500_000 and i % 4:
            continue
        mut = rng.choice([["id"], ["id"], ["trunc", rng.randrange(n + 1)], ["flip", rng.randrange(max(n, 1)), rng.randrange(8)],
                          ["burst", rng.randrange(max(n, 1)), 16, rng.randrange(1 << 30)], ["const", rng.choice(consts)]])
        j = {"op": "clisub", "entry": "cli", "kind": k, "src": {"seed": sid, "muts": [mut]}, "ext": _ext_for(k, sid),
             "approx_size": n, "cli_mode": rng.choice(["text", "json", "unit", "jsonbin"])}
        subs.append(j)
    for k, sid, mu in (("xls", "fix:legacy_ms/mwe.xls", [["append", 7, 7]]), ("xls", "fix:legacy_ms/mwe.xls", [["olestream", "Workbook"]]),
                       ("doc", M.SEEDS["doc"][0], [["append", 100, 7]]), ("ppt", "fix:legacy_ms/slide_with_notes.ppt", [["append", 1, 7]])):
        subs.append({"op": "clisub", "entry": "cli", "kind": k, "ext": k, "approx_size": 80000, "cli_mode": "text",
                     "src": {"seed": sid, "muts": mu}})
    for which in ("mbox_second", "mbox_first", "mbox_clean", "zip_second", "zip_none"):
        subs.append({"op": "clisub", "entry": "cli", "kind": "mbox" if which.startswith("mbox") else "archive",
                     "ext": M.SURR_INPUTS[which], "approx_size": 500, "cli_mode": "text", "src": {"seed": txt, "muts": [["surr", which]]}})
    for comp in ("gz", "bz2", "xz"):
        subs.append({"op": "clisub", "entry": "cli", "kind": "archive", "ext": comp, "approx_size": 100, "cli_mode": "text",
                     "src": {"seed": txt, "muts": [["compress", comp]]}})
    return jobs, subs


# ------------------------------------------------------------------------------------------------- run
def run(ctx):
    ev, v = ctx.ev, ctx.v
    t_start = time.time()
    kinds_cp = KINDS if ctx.thorough else QUICK_KINDS
    box = {}

    def tlc_side():
        try:
            _theorems(ctx)
        except BaseException as e:          # noqa: re-raised in the main thread
            box["err"] = e

    def gen_side():
        try:
            box["cases"] = _gen_cases(ctx, GEN_KINDS)
        except BaseException as e:          # noqa
            box["err"] = e
    th = threading.Thread(target=tlc_side)
    th2 = threading.Thread(target=gen_side)
    th.start()
    th2.start()

    with Pool(ctx.scratch / "pool", n=WORKERS) as pool:
        # binding check: the layer functions exist and have a wrapper
        for lf in pool.layers:
            if lf["wrapper"] is None and lf["t"] in ("Extractor", "ReadFile", "ArchiveEntry", "Attachment", "Cli"):
                v.violation(what=f"layer function {lf['name']} ({lf['t']}) has no wrapper try statement at all",
                            case=lf, where=f"{lf['file']}:{lf['name']}")
        names = {lf["name"] for lf in pool.layers}
        if len([lf for lf in pool.layers if lf["t"] == "Extractor"]) < 21:
            raise MachineryError(f"expected 21 extractor generators, found {sorted(names)}")
        cp_jobs, cp_res = _crash_runs(ctx, pool, kinds_cp)
        ctx.log(f"crash-point runs done at {time.time() - t_start:.0f}s")
        fz_jobs, sub_jobs = _fuzz_jobs(ctx, KINDS)
        ctx.log(f"fuzzing: {len(fz_jobs)} executions in process + {len(sub_jobs)} CLI subprocesses")
        t0 = time.time()
        fres = pool.run(fz_jobs + sub_jobs,
                        progress=lambda a, b: ctx.log(f"  fuzz {a}/{b}") if a % 5000 == 0 else None)
        ctx.log(f"fuzz executions done in {time.time() - t0:.1f}s")
        killed = [i for i, r in enumerate(fres) if r.get("killed") == "Timeout"]
        if killed:
            dj = []
            for i in killed:
                j = dict((fz_jobs + sub_jobs)[i])
                j["op"] = "oledom"
                dj.append(j)
            for i, r in zip(killed, pool.run(dj)):
                fres[i]["dom"] = r.get("dom") if isinstance(r, dict) else None
    th.join()
    th2.join()
    if "err" in box:
        raise box["err"]
    ctx.log(f"TLC (theorems, sensitivity, SurfaceGen) done at {time.time() - t_start:.0f}s")
    cp_traces, cp_meta = _crash_compare(ctx, box["cases"], cp_jobs, cp_res)
    fz_traces, fz_meta = [], []
    for j, r in zip(fz_jobs + sub_jobs, fres):
        if "machinery" in r:
            raise MachineryError(f"fuzz execution failed in the harness: {r['machinery']}\n{r.get('tb', '')}")
        if j["op"] == "seq" and "steps" in r:
            for si, sr in enumerate(r["steps"]):
                st = j["steps"][si]
                fz_traces.append({"id": f"fz{len(fz_traces)}", "hdr": {"x": 1}, "ev": _strip(sr["ev"])})
                hist = [f"{x['kind']}:{x['src']}" for x in j["steps"][:si]]
                fz_meta.append({"desc": {"entry": "direct", "kind": st["kind"], "src": st["src"], "ext": st.get("ext"),
                                         "op": "seq", "step": si + 1, "after_calls_on_other_threads": hist,
                                         "blocked": sr.get("blocked", False)},
                                "res": {"esc_type": sr.get("esc_type"), "sha": None, "detail": [],
                                        "blocked_after": hist if sr.get("blocked") else None}, "job": st})
            continue
        fz_traces.append({"id": f"fz{len(fz_traces)}", "hdr": {"x": 1}, "ev": _strip(r["ev"])})
        fz_meta.append({"desc": {"entry": j["entry"], "kind": j["kind"], "src": j["src"], "ext": j.get("ext"),
                                 "members": j.get("members"), "arch": j.get("arch"), "cli_mode": j.get("cli_mode"),
                                 "member_names": j.get("member_names"), "op": j["op"]}, "res": r, "job": j})

    # ---- TLC validates every distinct exception flow
    all_traces = cp_traces + fz_traces
    all_meta = cp_meta + fz_meta
    uniq, index = {}, []
    for t in all_traces:
        key = json.dumps(t["ev"], sort_keys=True)
        if key not in uniq:
            uniq[key] = len(uniq)
        index.append(uniq[key])
    ulist = [None] * len(uniq)
    for t, i in zip(all_traces, index):
        if ulist[i] is None:
            ulist[i] = {"id": f"u{i}", "hdr": {"x": 1}, "ev": t["ev"]}
    ctx.log(f"{len(all_traces)} recorded executions, {len(ulist)} distinct exception flows -> TLC")
    br = validate("SurfaceTrace", TRACE_CFG, ulist, scratch=ctx.scratch, parallel=12, min_chunk=150, timeout=1500,
                  diagnose=40)
    ev.tlc_counts("SurfaceTrace: distinct recorded exception flows validated", br.distinct, br.states, br.wall_s)
    # ---- executions rejected by the reference design: does the AS-BUILT model (open finding on) explain them?
    asbuilt = {}
    cand = []
    for t, m, ui in zip(all_traces, all_meta, index):
        r = m["res"]
        if not br.verdicts[ui].accepted and r.get("killed") == "Timeout" and isinstance(r.get("dom"), dict):
            e = {"a": "Timeout", "k": m["desc"]["kind"]}
            e.update(r["dom"])
            cand.append((t["id"], {"id": t["id"], "hdr": {"x": 1}, "ev": [e]}))
    if cand:
        for fid, dv in KNOWN_SPIN:
            if not v.open_finding(fid):
                continue
            left = [c for c in cand if c[0] not in asbuilt]
            if not left:
                break
            bra = validate("SurfaceTrace", TRACE_CFG.replace("Deviations = {}", 'Deviations = {"%s"}' % dv),
                           [c[1] for c in left], scratch=ctx.scratch, parallel=2, min_chunk=50, timeout=600)
            ev.tlc_counts(f"SurfaceTrace as built ({dv} on): killed executions in the domain of {fid}",
                          bra.distinct, bra.states, bra.wall_s)
            for (tid_, _), tv in zip(left, bra.verdicts):
                if tv.accepted:
                    asbuilt[tid_] = fid
    n_ok = 0
    reported = {}
    for t, m, ui in zip(all_traces, all_meta, index):
        tv = br.verdicts[ui]
        if tv.accepted:
            n_ok += 1
            continue
        if asbuilt.get(t["id"]):
            v.known(asbuilt[t["id"]], f"[{m['desc'].get('entry')}/{m['desc'].get('kind')}] input {m['desc'].get('src')} killed on its "
                                 f"CPU budget; input-structure evidence {m['res'].get('dom')}", m["desc"])
            continue
        evs = t["ev"]
        r = m["res"]
        at = tv.reached if tv.reached >= 0 else None
        bad = evs[at] if at is not None and at < len(evs) else {"a": "?"}
        sig = (m["desc"].get("entry"), m["desc"].get("kind"), json.dumps(bad, sort_keys=True), r.get("esc_type"),
               json.dumps(evs[:at] if at else [], sort_keys=True)[:300])
        if sig in reported:
            reported[sig]["n"] += 1
            continue
        what = _explain(bad, m, r)
        rep = {"n": 1}
        reported[sig] = rep
        case = dict(m["desc"])
        src = m["job"].get("src")
        if src and t["id"].startswith("fz"):
            try:
                data = M.seed_bytes(src["seed"])
                other = M.seed_bytes(src["other"]) if src.get("other") else b""
                for sp in src.get("muts", []):
                    data = M.mutate(data, sp, other)
                case["input_sha256_16"] = r.get("sha")
                case["input_size"] = len(data)
                if len(data) <= 200_000:
                    case["input_b64"] = base64.b64encode(data).decode()
            except Exception:
                pass
        v.violation(what=what, case=case, expected="a behaviour of Surface.tla (rejected at event %s)" % at,
                    observed={"trace": _fmt(evs), "rejected_event": bad, "escaping_type": r.get("esc_type"),
                              "cause": r.get("cause"), "message": r.get("esc_msg"), "raised": r.get("detail"),
                              "stderr": r.get("stderr"), "rc": r.get("rc"), "killed": r.get("killed")},
                    where=str(r.get("detail", [["", ""]])[0][1:3]) if r.get("detail") else "")
    v.ok(n_ok)
    ev.replayed(len(all_traces))
    # ---- evidence
    kinds_seen = {}
    for m, t in zip(fz_meta, fz_traces):
        last = t["ev"][-1]
        key = (m["desc"]["entry"], m["desc"]["kind"], last.get("esc", last.get("out", last["a"])))
        kinds_seen[key] = kinds_seen.get(key, 0) + 1
        if any(e["a"] in ("Raise", "Absorb", "Wrap") for e in t["ev"]):
            ev.nontrivial(("fuzz",) + key)
    for m, t in list(zip(fz_meta, fz_traces))[:: max(1, len(fz_traces) // 5)][:5]:
        ev.sample({"case": {k: m["desc"][k] for k in ("entry", "kind", "src")}, "trace": _fmt(t["ev"])[:300]})
    for m, t in list(zip(cp_meta, cp_traces))[:: max(1, len(cp_traces) // 3)][:3]:
        ev.sample({"case": m["desc"], "trace": _fmt(t["ev"])[:300]})
    outcomes = {}
    for (e, k, o), n in kinds_seen.items():
        outcomes[o] = outcomes.get(o, 0) + n
    ev.set(rule="crash points: every executed line of every layer function (stage from the AST) x concrete exception "
                "classes x entry points, outcome compared with SurfaceGen's dump and flow validated by TLC; fuzzing: "
                "seeded mutants of every seed of all 21 kinds x entry points, flow validated by TLC; non-trivial = "
                "distinct (plan, layer, stage, class, after-yield) with an outcome / distinct (entry, kind, outcome) "
                "with at least one exception event",
           exhaustive=False,
           constants={"kinds_crash_points": len(kinds_cp), "fuzz_executions": len(fz_traces),
                      "injection_runs": len(cp_traces), "distinct_flows": len(ulist), "fuzz_outcomes": outcomes,
                      "workers": WORKERS, "as_limit_gib": 3, "budget": "CPU 20 s + 2 s/MB (RLIMIT_CPU), wall >= 300 s"})
    ev.assume("termination for arbitrary bytes is evidence by exploration (bounded workers, CPU/wall budget), not a proof: "
              "pypdf / openpyxl / olefile / xlrd / email / zipfile / tarfile / lzma run underneath",
              "TLC proves termination of the DESIGN (layer control flow of Surface.tla), not of the parsers",
              "stage of a line = position relative to the function's wrapper try, computed from the AST (c01_layers.py)",
              "log records and third-party warnings are routed away from stderr by the harness (root handler, warnings "
              "filter): every stderr line during cli.main is the CLI's own and is counted",
              "what a member that cannot be READ does to its archive (Zip!MemberErrorKillsArchive, repaired under C10; 7z "
              "KF-C10-01) is C10's question; for C01 both behaviours are inside the family and the archive loop is an "
              "internal layer (DON'T-CARE)")


def _explain(bad, m, r):
    d = m["desc"]
    a = bad.get("a")
    src = d.get("src")
    inp = (f"input {src}" if src else "the valid seed document, nothing injected" if str(d.get("class", "")).startswith("(none")
           else f"injection {d.get('class')} at {d.get('at')}")
    head = f"[{d.get('entry')}/{d.get('kind')}] {inp}: "
    if a == "Timeout" and d.get("blocked"):
        return head + ("the call never came back: its thread sleeps without CPU progress (blocked), after these calls on "
                       f"other threads of the same process: {d.get('after_calls_on_other_threads')} (termination clause)")
    if a == "Timeout":
        return head + "the execution did not finish within its CPU / wall budget and was killed (termination clause)"
    if a == "LoopOverrun":
        return head + (f"a `while` loop of the library did not stop within 16 * len(input) + 2^21 iterations: "
                       f"{r.get('loop_over')} (termination clause, progress monitor)")
    if a == "WorkerDied":
        return head + f"the worker process died (rc={r.get('rc')}) while extracting"
    if a == "Unwind":
        return head + (f"exception of class {bad.get('c')} ({r.get('esc_type') or 'see raised'}) leaves layer frame "
                       f"{bad.get('d')} -- not allowed by the layer's catch policy (Inv_Surface / Inv_MemberIsolation / Inv_Cli)")
    if a == "Wrap":
        return head + f"the wrapper converts the exception into class {bad.get('c')}, not the documented class for this layer"
    if a == "Raise":
        return head + (f"an exception arises at stage '{bad.get('st')}' of layer frame {bad.get('d')}, which the "
                       "specification does not have for this layer (a statement outside the wrapper's try body: before it, "
                       "in its else / finally)")
    if a == "CliOut" and bad.get("out") == "polluted":
        return head + (f"something other than the CLI wrote to stdout: {r.get('foreign_stdout')} (exit={bad.get('exit')}); stdout "
                       "must be exactly the result or empty")
    if a == "CliOut":
        return head + (f"CLI outcome stdout={bad.get('out')} diagnostic lines={bad.get('diag')} exit={bad.get('exit')} "
                       "differs from the specification (exit 0 + result | exit 1 + nothing on stdout + one diagnostic)")
    if a == "Outcome":
        return head + f"the consumer saw escaped={bad.get('esc')} results={bad.get('n')}, the specification's run ends differently"
    return head + f"recorded exception flow is not a behaviour of Surface.tla (first rejected event: {bad})"
