"""C10 -- archive members come out as themselves.  Specs: SevenZip.tla (+ SevenZipGen, SevenZipTrace),
Archive.tla member part (+ ArchiveGen, ArchiveTrace).

1. SevenZip: TLC proves Faithful (entry k receives exactly entry k's bytes, empty files are files,
   directories are directories) for the reference addressing over all layouts of <= 3 entries x kinds x
   ordered partitions into folders x coders x sizes x pack positions; sensitivity: AlwaysFirstPackStream
   and EmptyStreamIsDirectory each have a counterexample.
2. SevenZipGen -> every layout is written with the independent 7z writer (real sizes, LZMA / LZMA2 / copy,
   optional encoded header, gap before the pack area), read with the real SevenZipReader (list +
   extractall) and the observation is validated by TLC against the reference cursor machine
   (SevenZipTrace).  The writer is validated at every run against the repository's fixture archive.
3. Archive: TLC proves Inv_Members / Inv_Isolation on the reference member loop; sensitivity:
   MemberErrorKillsArchive, FolderErrorKillsArchive.
4. ArchiveGen -> member lists over doc / emptyFile / corrupt / dir / hidden / fork / nested / unsup are
   built as ZIP (stored, deflated), TAR (plain, gz, bz2, xz) and 7z (copy, LZMA, LZMA2, mixed x solid,
   one folder per file, mixed x plain / encoded header), one member corrupted at a time (flipped payload
   byte, bad CRC, unsupported method, truncated stream, broken document) and the packer parameters that
   change the container framing drawn per archive (deflate level; tar header format USTAR / GNU / PAX; bz2
   block size; gzip level + mtime / FNAME / FEXTRA / FCOMMENT; xz preset + check type); the results
   [(filename, file_path, digest id)] are compared by TLC (ArchiveTrace) with the direct extraction of
   every member's bytes.
"""
from __future__ import annotations

import io
import json
import os
import random
import subprocess
import sys
from concurrent.futures import ThreadPoolExecutor
from pathlib import Path

from .. import PY, REPO, VERIF
from ..c09_lib import pack_params
from ..repo import child_env
from ..tlaval import iter_dump
from ..tlc import MachineryError, run_tlc
from ..traces import validate
from .c09 import BASE, INVS, TRACE_CFG, describe, dump_cases, run_workers

SZ_CONST = ('CONSTANTS MaxFiles = %d\n Sizes = {1, 2}\n PackSizes = {1, 3}\n PackPositions = {0, 2}\n'
            ' Coders = {"copy", "lz"}\n Deviations = {%s}\n')
SZ_TRACE_CFG = ("SPECIFICATION TraceSpec\nCONSTRAINT TraceAccept\n" + SZ_CONST % (0, ""))
KF = "KF-C10-01"


# --------------------------------------------------------------------------- 7z reader level
def _sz_arches(ctx, max_files):
    dump = ctx.scratch / "szgen.dump"
    r = run_tlc("SevenZipGen", "SPECIFICATION GenSpec\n" + SZ_CONST % (max_files, ""), scratch=ctx.scratch, dump=dump)
    f = dump if dump.exists() else Path(str(dump) + ".dump")
    out = []
    for s in iter_dump(f):
        a = s["arch"]
        out.append({"kinds": list(a["kinds"]), "usize": list(a["usize"]), "fold": [list(g) for g in a["fold"]],
                    "coder": list(a["coder"]), "psize": list(a["psize"]), "packPos": a["packPos"]})
    if len(out) != r.distinct:
        raise MachineryError(f"SevenZipGen dump has {len(out)} states, TLC reported {r.distinct}")
    out.sort(key=lambda a: json.dumps(a, sort_keys=True))
    return r, out


def _random_arch(rng, n):
    kinds = [rng.choice(["file", "file", "file", "empty", "dir"]) for _ in range(n)]
    files = [i + 1 for i, k in enumerate(kinds) if k == "file"]
    fold, cur = [], []
    for i in files:
        cur.append(i)
        if rng.random() < 0.45:
            fold.append(cur)
            cur = []
    if cur:
        fold.append(cur)
    return {"kinds": kinds, "usize": [1 if k == "file" else 0 for k in kinds], "fold": fold,
            "coder": [rng.choice(["copy", "lz"]) for _ in fold], "psize": [1 for _ in fold],
            "packPos": rng.choice([0, 2])}


def _sz_worker(job_file, out_file):
    """Fresh interpreter: write each archive, read it with the real reader, record the observation."""
    sys.path.insert(0, os.environ["SP2T_REPO"])
    from mbv import c10_sevenz as z
    from mbv.repo import activate
    activate()
    import shutil
    try:
        from sharepoint2text.parsing.extractors.util.sevenzip import SevenZipReader
    except ImportError as e:
        raise MachineryError(f"binding vanished: sevenzip.SevenZipReader ({e})")
    job = json.loads(Path(job_file).read_text())
    wd = Path(job["wd"])
    wd.mkdir(parents=True, exist_ok=True)
    traces = []
    for c in job["cases"]:
        rng = random.Random(c["seed"])
        a = c["arch"]
        n = len(a["kinds"])
        names, entries = [], []
        for i, k in enumerate(a["kinds"], start=1):
            r_ = rng.random()
            if r_ < 0.5:
                nm = f"d{i}" if k == "dir" else f"e{i}.bin"
            elif r_ < 0.75:
                nm = f"sub{i}/d{i}" if k == "dir" else f"sub{i}/é{i}.bin"
            else:       # UTF-16 code units with a zero LOW byte after an ASCII character (U+0100, U+0300, U+4E00)
                nm = rng.choice([f"x\u4e00{i}/a\u0300{i}", f"d\u0100{i}", f"a\u0300e\u0301 {i}"]) + ("" if k == "dir" else ".bin")
            sz_ = rng.randint(16, 700) if k == "file" else 0
            if k == "file" and rng.random() < 0.5:
                data = rng.randbytes(12) + (b"lorem ipsum %d " % i) * (sz_ // 10)
            else:
                data = rng.randbytes(sz_)
            names.append(nm)
            entries.append({"name": nm, "kind": k, "data": data if k == "file" else b""})
        folders = [[i - 1 for i in g] for g in a["fold"]]
        coders = [("copy" if cc == "copy" else rng.choice(["lzma", "lzma2"])) for cc in a["coder"]]
        dict_size = z.lzma2_dict(rng.randrange(13))          # LZMA2 property bytes 0..12, odd (3 * 2^n) ones too
        ld = c.get("longdist")
        if ld:
            # one solid LZMA / LZMA2 folder whose LAST file repeats the head of the FIRST at a distance of 0.85 x
            # dictionary size: for odd LZMA2 property bytes that lies between 2 * 2^n and 3 * 2^n
            dict_size = ld["dict"]
            coders = [ld["coder"]] * len(folders)
            files = [e for e in entries if e["kind"] == "file"]
            head = rng.randbytes(700)
            rest = max(int(dict_size * 0.85) - 700, 64)
            mids = len(files) - 2
            files[0]["data"] = head + rng.randbytes(rest - mids * 200)
            for e in files[1:-1]:
                e["data"] = rng.randbytes(200)
            files[-1]["data"] = head + rng.randbytes(40)
        declared = c.get("declared")        # dictionary size DECLARED in the coder properties (data stays small)
        if declared:
            coders = [declared["coder"]] * len(folders)
        gap = 0 if a["packPos"] == 0 else rng.randint(1, 60)
        data, info = z.write_7z(entries, folders, coders=coders, encode_header=rng.random() < 0.4, gap=gap,
                                dict_size=dict_size, declared_dict=declared["dict"] if declared else None,
                                always_nums=rng.random() < 0.3, attrs=rng.random() < 0.7, mtime=rng.random() < 0.3)
        z.self_check(data, entries)
        unpacked = [b"".join(entries[i]["data"] for i in f) for f in folders]
        hdr = {"kinds": a["kinds"], "names": names, "usize": [len(e["data"]) for e in entries], "fold": a["fold"],
               "coder": a["coder"], "psize": [s for _, s in info["pack"]], "packPos": gap}
        ev = []
        out = wd / f"x{c['n']}"
        failed, exc = 0, ""
        try:
            rd = SevenZipReader(io.BytesIO(data))
            ev.append({"a": "List", "files": [[f.filename, 1 if f.is_directory else 0, f.uncompressed,
                                               f.folder_index] for f in rd.list()]})
            rd.extractall(str(out))
        except Exception as e:  # noqa
            failed, exc = 1, f"{type(e).__name__}: {e}"[:200]
        for i, e in enumerate(entries, start=1):
            p = out / e["name"]
            if p.is_file():
                w = p.read_bytes()
                segs = []
                if w:
                    segs = [["x", 0, 1, len(w)]]
                    for g, u in enumerate(unpacked, start=1):
                        pos = u.find(w)
                        if pos >= 0:
                            segs = [["u", g, pos + 1, pos + len(w)]]
                            break
                ev.append({"a": "Out", "i": i, "st": "file", "segs": segs})
            else:
                ev.append({"a": "Out", "i": i, "st": "dir" if p.is_dir() else "missing", "segs": []})
        ev.append({"a": "Done", "failed": failed})
        shutil.rmtree(out, ignore_errors=True)
        traces.append({"id": c["id"], "hdr": hdr, "ev": ev, "dbg": {"exc": exc, "coders": coders, "n": n}})
    Path(out_file).write_text(json.dumps(traces))


def _validate_writer(ctx):
    """The independent writer speaks the dialect of the tool that made the repository's fixture."""
    from .. import c10_sevenz as z
    fx = REPO / "sharepoint2text" / "tests" / "resources" / "archives" / "test_archive.7z"
    if not fx.exists():
        ctx.ev.assume("repository fixture test_archive.7z not present: writer validated by its own round trip only")
        return
    data = fx.read_bytes()
    try:
        z.roundtrip_check(data)
        members = z.reference_extract(data)
    except Exception as e:
        raise MachineryError(f"7z writer / validator does not reproduce the fixture archive header: {e!r}")
    ctx.log(f"7z writer validated against fixture: header round-trips byte-identically, {len(members)} entries, CRCs ok")


def _tlc_jobs(ctx, pool):
    """Theorem and sensitivity runs, started in the background and joined at the end of run()."""
    mf, mm = 3, 3
    jobs = [("SevenZip: reference addressing, all layouts <= 3 entries: file k -> content k", None, None,
             pool.submit(run_tlc, "SevenZip", "SPECIFICATION Spec\n" + SZ_CONST % (mf, "")
                         + "INVARIANT Faithful\nINVARIANT TypeOK\n", scratch=ctx.scratch, timeout=1200, workers=4))]
    for d in ("AlwaysFirstPackStream", "EmptyStreamIsDirectory"):
        jobs.append((f"SevenZip sensitivity: deviation {d} must violate Faithful", d, "Faithful",
                     pool.submit(run_tlc, "SevenZip", "SPECIFICATION Spec\n" + SZ_CONST % (mf, f'"{d}"')
                                 + "INVARIANT Faithful\n", scratch=ctx.scratch, expect_fail=True, timeout=900, workers=4)))
    jobs.append(("Archive: reference member loop, MT_C10 lists <= 3: Inv_Members, Inv_Isolation (+ C09 invariants)",
                 None, None, pool.submit(run_tlc, "Archive", "SPECIFICATION Spec\n" + BASE % ("MT_C10", mm, 1, "") + INVS,
                                         scratch=ctx.scratch, timeout=1500, workers=4)))
    for d in ("MemberErrorKillsArchive", "FolderErrorKillsArchive"):
        jobs.append((f"Archive sensitivity: deviation {d} must violate Inv_Isolation", d, "Inv_Isolation",
                     pool.submit(run_tlc, "Archive", "SPECIFICATION Spec\n" + BASE % ("MT_C10", 2, 1, f'"{d}"') + INVS,
                                 scratch=ctx.scratch, expect_fail=True, timeout=900, workers=4)))
    if ctx.thorough:
        jobs.append(("Archive as-built (KF-C10-01): the deviation violates Inv_Isolation in exactly the predicted way",
                     None, None,
                     pool.submit(run_tlc, "Archive", "SPECIFICATION Spec\n" + BASE % ("MT_C10", 2, 1, '"FolderErrorKillsArchive"')
                                 + INVS.replace("Inv_Isolation", "Inv_IsolationAsBuilt"), scratch=ctx.scratch, timeout=900,
                                 workers=4)))
    return jobs


def _join_tlc(ctx, jobs):
    for name, d, inv, fut in jobs:
        r = fut.result()
        ctx.ev.tlc(name, r, note="expected violation" if d else "")
        if d and r.violated != inv:
            raise MachineryError(f"sensitivity run with deviation {d}: expected {inv} violated, got {r.violated}")


def _sz_part(ctx):
    ev, v = ctx.ev, ctx.v
    mf = 3
    rg, arches = _sz_arches(ctx, mf)
    ev.tlc("SevenZipGen: archive layouts", rg)
    rng = random.Random(ctx.seed * 104729 + 5)
    cases = [{"id": f"L{n}", "n": n, "arch": a, "seed": rng.randrange(1 << 30)} for n, a in enumerate(arches, start=1)]
    extra = 2500 if ctx.thorough else 300
    for n in range(extra):
        cases.append({"id": f"R{n}", "n": 100000 + n, "arch": _random_arch(rng, rng.randint(3, 9)),
                      "seed": rng.randrange(1 << 30)})
    # long-distance matches: every small LZMA2 property byte (even: 2^n, odd: 3 * 2^n dictionaries) and some LZMA sizes
    n_ld = 0
    for coder, dicts in (("lzma2", [(2 | (p & 1)) << (p // 2 + 11) for p in range(13)]),
                         ("lzma", [4096, 6144, 12288, 40000, 98304])):
        for d in dicts:
            for kinds, fold in ((["file", "file"], [[1, 2]]), (["file", "empty", "file", "file"], [[1, 3, 4]])):
                cases.append({"id": f"D{n_ld}", "n": 200000 + n_ld, "seed": rng.randrange(1 << 30),
                              "longdist": {"coder": coder, "dict": d},
                              "arch": {"kinds": kinds, "usize": [1 if k == "file" else 0 for k in kinds], "fold": fold,
                                       "coder": ["lz"], "psize": [1], "packPos": rng.choice([0, 2])}})
                n_ld += 1
    # large DECLARED dictionaries (what "ultra" presets write), tiny members: LZMA 1 MiB .. 256 MiB, LZMA2 property
    # bytes 13 .. 32 and 40 (= 4 GiB - 1)
    for coder, dicts in (("lzma", [1 << 20, 16 << 20, 64 << 20, 128 << 20, 256 << 20]),
                         ("lzma2", [(2 | (p & 1)) << (p // 2 + 11) for p in (13, 19, 24, 27, 30, 31, 32)] + [0xFFFFFFFF])):
        for d in dicts:
            for kinds, fold in ((["file", "file"], [[1, 2]]), (["file", "dir", "file"], [[1], [3]])):
                cases.append({"id": f"D{n_ld}", "n": 200000 + n_ld, "seed": rng.randrange(1 << 30),
                              "declared": {"coder": coder, "dict": d},
                              "arch": {"kinds": kinds, "usize": [1 if k == "file" else 0 for k in kinds], "fold": fold,
                                       "coder": ["lz"] * len(fold), "psize": [1] * len(fold), "packPos": 0}})
                n_ld += 1
    nw = 8
    procs = []
    for w in range(nw):
        jf, of = ctx.scratch / f"sz-job{w}.json", ctx.scratch / f"sz-out{w}.json"
        jf.write_text(json.dumps({"wd": str(ctx.scratch / f"sz-w{w}"), "cases": cases[w::nw]}))
        procs.append((of, subprocess.Popen([PY, "-m", "mbv.props.c10", "szworker", str(jf), str(of)], env=child_env(),
                                           cwd=str(VERIF), stdout=subprocess.PIPE, stderr=subprocess.PIPE, text=True)))
    traces = []
    for of, p in procs:
        so, se = p.communicate(timeout=2400)
        if p.returncode != 0:
            raise MachineryError(f"7z reader worker failed:\n{se[-2500:]}")
        traces.extend(json.loads(of.read_text()))
    order = {c["id"]: i for i, c in enumerate(cases)}
    traces.sort(key=lambda t: order[t["id"]])
    dbg = [t.pop("dbg") for t in traces]
    br = validate("SevenZipTrace", SZ_TRACE_CFG, traces, scratch=ctx.scratch, parallel=8, min_chunk=200, timeout=1500)
    ev.tlc_counts("SevenZipTrace: reader observations validated against the reference cursor machine",
                  br.distinct, br.states, br.wall_s)
    for t, d, tv in zip(traces, dbg, br.verdicts):
        if tv.accepted:
            v.ok(1)
            if len(t["hdr"]["fold"]) > 1 or "empty" in t["hdr"]["kinds"]:
                ev.nontrivial(("7z", json.dumps(t["hdr"]["fold"]), tuple(t["hdr"]["kinds"]), tuple(t["hdr"]["coder"])))
            continue
        lst = next((e for e in t["ev"] if e["a"] == "List"), None)
        outs = [(e["i"], e["st"], e["segs"]) for e in t["ev"] if e["a"] == "Out"]
        v.violation(
            what=(f"7z archive with entries {list(zip(t['hdr']['names'], t['hdr']['kinds'], t['hdr']['usize']))} folders="
                  f"{t['hdr']['fold']} coders={d['coders']} pack sizes={t['hdr']['psize']} packPos={t['hdr']['packPos']}: "
                  f"the reader's listing / extracted bytes differ from the reference addressing "
                  f"(extractall error: {d['exc'] or 'none'}); listing={lst['files'] if lst else None}; "
                  f"extracted (entry, state, provenance [stream, folder, from, to])={outs}"),
            case=t["hdr"], observed=t["ev"], where="sevenzip.py:SevenZipReader.extractall/_build_file_list")
    ev.replayed(len(traces))
    k = next((i for i, t in enumerate(traces) if len(t["hdr"]["fold"]) > 1), 0)
    ev.sample({"7z layout": traces[k]["hdr"], "observation": traces[k]["ev"][:6]})
    return len(arches), extra + n_ld


# --------------------------------------------------------------------------- member level
def _variants(c, rng, thorough):
    ms = c["members"]
    cor = [i for i, m in enumerate(ms) if m["kind"] == "corrupt"]
    j = cor[0] if cor else None
    fmt = c["fmt"]
    out = []
    if fmt == "zip":
        for method in ("stored", "deflated"):
            if j is None:
                out.append({"method": method, "pack": pack_params("zip", "", rng)})
            else:
                kinds = ["flip", "crc", "method", "baddoc"]
                for what in (kinds if thorough else rng.sample(kinds, 2)):
                    out.append({"method": method, "corrupt": [j, what], "pack": pack_params("zip", "", rng)})
    elif fmt == "tar":
        for comp in ("", "gz", "bz2", "xz"):
            if not ms and comp == "":
                continue            # DON'T-CARE: a plain tar without members is 10240 NUL bytes, undetectable
            if j is None:
                out.append({"comp": comp, "pack": pack_params("tar", comp, rng)})
                if thorough:          # a second, independently drawn packer parameter set
                    out.append({"comp": comp, "pack": pack_params("tar", comp, rng)})
            else:
                out.append({"comp": comp, "corrupt": [j, "baddoc"], "pack": pack_params("tar", comp, rng)})
                if comp == "":
                    out.append({"comp": comp, "corrupt": [j, "flip"], "pack": pack_params("tar", comp, rng)})
    else:
        combos = [(cd, lay, enc) for cd in ("copy", "lzma", "lzma2", "mixed") for lay in ("solid", "perfile", "mixed")
                  for enc in (False, True)]
        if not thorough:
            pick = []
            for lay in ("solid", "perfile", "mixed"):
                pick += rng.sample([x for x in combos if x[1] == lay], 2)
            combos = pick
        for cd, lay, enc in combos:
            if j is None:
                out.append({"coder": cd, "layout": lay, "enc": enc})
            else:
                kinds = ["flip", "trunc", "crc", "baddoc"]
                for what in (kinds if thorough else [rng.choice(kinds)]):
                    out.append({"coder": cd, "layout": lay, "enc": enc, "corrupt": [j, what]})
    return out


def _member_part(ctx):
    ev, v = ctx.ev, ctx.v
    thorough = ctx.thorough
    mm = 3
    rg, cases = dump_cases(ctx, "MT_C10", mm, 0, "c10gen")
    ev.tlc("ArchiveGen: member lists (format x kinds)", rg)
    cases = [c for c in cases if c["hist"]["t"] == "Exhaust"
             and sum(1 for m in c["members"] if m["kind"] == "corrupt") <= 1]
    rng = random.Random(ctx.seed * 31337 + 3)
    ncs = ["plain", "plain", "nested", "unicode", "dotslash", "dotslash"]
    # names a packer stores verbatim (tar -P, ZipFile.writestr("/abs/..")): absolute, //, leading backslash, drive
    # letter.  Whether such a member comes out is DON'T-CARE, but a result must be labelled <archive path>!/<member name>
    labelled = ["absolute", "dslash", "backslash", "drive"]
    for n, c in enumerate(cases, start=1):
        for mi, m in enumerate(c["members"]):
            if m["nc"] == "dup":
                continue                            # keeps the name of the member before it
            followed = mi + 1 < len(c["members"]) and c["members"][mi + 1]["nc"] == "dup"
            if m["kind"] == "doc" and not followed and rng.random() < (0.25 if c["fmt"] != "7z" else 0.08):
                m["nc"] = rng.choice(labelled)
            elif m["kind"] in ("doc", "emptyFile", "corrupt", "dir", "nested", "unsup"):
                m["nc"] = rng.choice(ncs)          # benign name classes only: the oracle is the same for all of them
            elif m["kind"] == "hidden":
                m["nc"] = rng.choice(["plain", "nested"])   # dot-file at the root / below a folder
        c.update(id=f"m{n}", n=n, seed=rng.randrange(1 << 30), rich=True, tok0=1)
        c["variants"] = _variants(c, rng, thorough)
    n_arch = sum(len(c["variants"]) for c in cases)
    ctx.log(f"{len(cases)} member lists, {n_arch} archives")
    traces = run_workers(ctx, [c for c in cases if c["variants"]], False, "c10", nworkers=14)
    dbg = [t.pop("dbg") for t in traces]
    br = validate("ArchiveTrace", TRACE_CFG % "property", traces, scratch=ctx.scratch, parallel=12, min_chunk=300,
                  timeout=1800)
    ev.tlc_counts("ArchiveTrace: archive results validated against direct extraction of each member",
                  br.distinct, br.states, br.wall_s)
    rejected = [(i, t) for i, (t, tv) in enumerate(zip(traces, br.verdicts)) if not tv.accepted]
    # rejected traces in the domain of the OPEN finding: does the as-built model predict exactly this?
    cand = [(i, t) for i, t in rejected if t["hdr"]["fmt"] == "7z"
            and any(m["kind"] == "corrupt" for m in t["hdr"]["members"])
            and (json.loads(dbg[i]["variant"]).get("corrupt") or [0, ""])[1] in ("flip", "trunc")]   # stream damage
    asbuilt = {}
    if cand:
        br2 = validate("ArchiveTrace", TRACE_CFG % "asbuilt", [t for _, t in cand], scratch=ctx.scratch, parallel=8,
                       min_chunk=100, timeout=1200, diagnose=0)
        ev.tlc_counts("ArchiveTrace (as-built model, KF-C10-01 candidates)", br2.distinct, br2.states, br2.wall_s)
        asbuilt = {i: tv.accepted for (i, _), tv in zip(cand, br2.verdicts)}
    for i, (t, d, tv) in enumerate(zip(traces, dbg, br.verdicts)):
        t["dbg"] = d
        if tv.accepted:
            v.ok(1)
            ev.nontrivial((t["hdr"]["fmt"], d["variant"], tuple(m["kind"] for m in t["hdr"]["members"])))
        elif asbuilt.get(i):
            v.known(KF, describe(t, tv.reached), case={"hdr": t["hdr"], "variant": d["variant"]})
        else:
            v.violation(what=f"[{d['variant']}] " + describe(t, tv.reached),
                        case={"hdr": t["hdr"], "variant": d["variant"], "names": d["names"]}, observed=t["ev"][:30],
                        where="archive_extractor.py member loops / sevenzip.py")
    ev.replayed(len(traces))
    for t in traces[:: max(1, len(traces) // 5)]:
        ev.sample({"fmt": t["hdr"]["fmt"], "variant": t["dbg"]["variant"], "names": t["dbg"]["names"],
                   "members": [(m["kind"], m["direct"]) for m in t["hdr"]["members"]],
                   "results": [(e["fn"], e["path"], e["dg"]) for e in t["ev"] if e["a"] == "CNext" and e["out"] == "item"]})
    return len(cases), n_arch


CFG_CONST = "CONSTANTS BufferValues = {32768}\n LimitValues = {100000, 300000}\n MaxCalls = %d\n Deviations = {%s}\n"


def _config_part(ctx, pool):
    """Members within limits under configuration histories (ArchiveCfg / ArchiveCfgTrace)."""
    ev, v = ctx.ev, ctx.v
    jobs = [("ArchiveCfg sensitivity: deviation UnsetFallsBackToBuffer must violate Inv_LimitKept", "UnsetFallsBackToBuffer",
             "Inv_LimitKept", pool.submit(run_tlc, "ArchiveCfg", "SPECIFICATION Spec\n" + CFG_CONST % (2, '"UnsetFallsBackToBuffer"')
                                          + "INVARIANT Inv_LimitKept\n", scratch=ctx.scratch, expect_fail=True, timeout=600, workers=2))]
    dump = ctx.scratch / "cfggen.dump"
    rg = run_tlc("ArchiveCfg", "SPECIFICATION Spec\n" + CFG_CONST % (2, "") + "INVARIANT Inv_LimitKept\n", scratch=ctx.scratch,
                 dump=dump, workers=4)
    ev.tlc("ArchiveCfg: all configuration histories of <= 2 calls keep an unspecified limit (Inv_LimitKept); = cases", rg)
    f = dump if dump.exists() else Path(str(dump) + ".dump")
    hist = [[{k: c[k] for k in ("buffer_size", "max_memory_size", "max_workers", "enable_parallel")} for c in st["calls"]]
            for st in iter_dump(f)]
    if len(hist) != rg.distinct:
        raise MachineryError(f"ArchiveCfg dump has {len(hist)} states, TLC reported {rg.distinct}")
    hist.sort(key=lambda h: json.dumps(h, sort_keys=True))
    rng = random.Random(ctx.seed * 7368787 + 29)
    nbig = 40 if ctx.thorough else 6
    bigs = set(rng.sample(range(len(hist)), nbig))
    hs = [{"id": f"h{n}", "calls": h, "seed": rng.randrange(1 << 30), "big": n in bigs} for n, h in enumerate(hist)]
    nw = 8
    procs = []
    for w in range(nw):
        jf, of = ctx.scratch / f"cfg-job{w}.json", ctx.scratch / f"cfg-out{w}.json"
        jf.write_text(json.dumps({"wroot": str(ctx.scratch / f"cfg-w{w}"), "histories": hs[w::nw]}))
        procs.append((of, subprocess.Popen([PY, "-m", "mbv.c10_cfg", str(jf), str(of)], env=child_env(), cwd=str(VERIF),
                                           stdout=subprocess.PIPE, stderr=subprocess.PIPE, text=True)))
    traces = []
    for of, p in procs:
        so, se = p.communicate(timeout=2400)
        if p.returncode != 0:
            raise MachineryError(f"configuration worker failed:\n{se[-2500:]}")
        traces.extend(json.loads(of.read_text()))
    traces.sort(key=lambda t: int(t["id"][1:]))
    br = validate("ArchiveCfgTrace", "SPECIFICATION TraceSpec\nCONSTRAINT TraceAccept\n" + CFG_CONST % (0, ""), traces,
                  scratch=ctx.scratch, parallel=4, min_chunk=150, timeout=900)
    ev.tlc_counts("ArchiveCfgTrace: probes after every configure call", br.distinct, br.states, br.wall_s)
    for t, tv in zip(traces, br.verdicts):
        if tv.accepted:
            v.ok(1)
            if len(t["ev"]) > 1:
                ev.nontrivial(("cfg", json.dumps([e for e in t["ev"] if e["a"] == "Configure"])))
            continue
        k = max(tv.reached, 0)
        e = t["ev"][min(k, len(t["ev"]) - 1)]
        calls = [{x: y for x, y in c.items() if x != "a" and y} for c in t["ev"][:k + 1] if c["a"] == "Configure"]
        v.violation(what=(f"configuration history {calls} (configure_archive_extraction called with exactly these parameters; "
                          f"0 / absent = not passed): probe {e.get('fmt')} with members of {e.get('sizes')} bytes yielded "
                          f"{e.get('yielded')}; a member must come out iff its size <= the max_memory_size last given "
                          f"explicitly (default 10485760): an unspecified parameter keeps its value"),
                    case={"calls": calls}, observed=t["ev"], where="archive_extractor.py:configure_archive_extraction / size checks")
    ev.replayed(len(traces))
    ev.sample({"configuration history": [e for e in traces[len(traces) // 2]["ev"]]})
    return jobs, len(traces)


def run(ctx):
    _validate_writer(ctx)
    pool = ThreadPoolExecutor(max_workers=3)
    jobs = _tlc_jobs(ctx, pool)
    n_lay, n_rand = _sz_part(ctx)
    n_lists, n_arch = _member_part(ctx)
    jobs3, n_cfg = _config_part(ctx, pool)
    _join_tlc(ctx, jobs + jobs3)
    pool.shutdown()
    ctx.ev.set(rule="(a) every 7z layout enumerated by SevenZipGen (+ random larger layouts) written, read by the real "
                    "reader and validated by TLC; (b) every member list enumerated by ArchiveGen over MT_C10 x archive "
                    "variants (ZIP stored/deflated, TAR plain/gz/bz2/xz, 7z coder x folder layout x header encoding; all "
                    "in thorough, 6 of 24 7z combinations per list in quick) x one corruption at a time; non-trivial = "
                    "distinct (format, variant, kinds)", exhaustive=ctx.thorough,
               constants={"7z_layouts": n_lay, "7z_random_layouts": n_rand, "member_lists": n_lists, "archives": n_arch,
                          "configuration_histories": n_cfg})
    ctx.ev.assume("the independent 7z writer (mbv/c10_sevenz.py) is trusted; validated against the repository fixture "
                  "(byte-identical header round trip, substream CRCs) and by independent re-extraction of every archive it writes",
                  "member documents come from the shared writers (mbv/writers); equality is on sha256 of the canonical "
                  "to_json without the four file-label fields, labels are compared separately by TLC",
                  "DON'T-CARE: a plain TAR without members (no magic bytes); corrupt members themselves; compressed "
                  "TAR streams damaged in the compression layer (not generated)")


if __name__ == "__main__":
    if sys.argv[1] == "szworker":
        _sz_worker(sys.argv[2], sys.argv[3])
