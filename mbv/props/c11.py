"""C11 -- ZIP-container bomb guard.  Specs: specs/ZipGuard.tla (+ ZipGuardBig, ZipGuardGen, ZipGuardTrace).

1. TLC proves (Deviations = {}): the accumulator loop of validate_zipfile = the declarative
   Reject predicate on the boundary lattice (and stays inside the three-valued oracle), the
   protocol machine (open_zipfile / validate_zip_bytesio / openpyxl / archive) only ever hands out
   objects that may be read and restores the stream position, and the limb-arithmetic predicate
   of ZipGuardBig agrees with the integer one on the overlap.  19 sensitivity configs (every
   `>` flipped, every clause dropped, directories counted, ratio operands swapped, 5 protocol
   deviations) must each FAIL.
2. (i)  every lattice vector of the ZipGuardGen dump -> list of zipfile.ZipInfo behind a stub with
        infolist(), ZipBombLimits(lattice limits) -> validate_zipfile; observations validated by TLC
        (ZipGuardTrace!TraceCase).
   (ii) the running code's DEFAULT limits: real ZIPs (a repository fixture per format re-packed +
        entries whose local AND central headers are forged to boundary sizes, 50,000 / 50,001-entry
        packages) through the 9 ZIP-container extractors and encryption.is_odf_encrypted; outcome
        class ZipBomb <=> TLC's BigConforms on two-limb... n-limb naturals (base 2^15).
   (iii) wrappers on zipfile.ZipFile.__init__/open/read and zip_bomb.validate_zipfile /
        validate_zip_bytesio record the per-object event order while every ZIP-container extractor
        runs over the repository's fixtures (and during (ii)); TLC's monitor (ZipGuard!MayRead)
        rejects any member read on a container that was not validated first.
   (iv) validate_zip_bytesio at stream positions {0, mid, end} x {accept, reject, not-a-zip}.

Entry metadata.  What makes an entry a directory is the trailing "/" of its NAME (zipfile.ZipInfo.is_dir());
external_attr (DOS directory bit, Unix S_IFDIR / S_IFLNK, read-only), create_system, flag bits and the
compression method are drawn by the harnesses independently of the name (table META): every lattice vector is
executed under each metadata variant, every clause's rejecting forged ZIP, real directory entries and honest
(really deflated, ~1000:1) bombs are built with each variant.  The specification never sees the metadata (its
verdict depends on name and sizes only; ZipGuard.tla proves the loop ignores the `ab` bit, deviation DirByAttr).
"""
from __future__ import annotations

import hashlib
import io
import itertools
import json
import os
import random
import struct
import subprocess
import sys
import time
import zlib
from concurrent.futures import ThreadPoolExecutor
from fractions import Fraction
from pathlib import Path

from .. import PY, REPO, SPECS, VERIF
from ..repo import child_env
from ..tlaval import iter_dump, to_tla
from ..tlc import MachineryError, run_tlc
from ..traces import validate

LOOP_DEVS = ["DirByAttr", "CountFilesOnly", "CountGe", "SingleGe", "EntryRatioGe", "TotalGe", "TotalRatioGe", "DropCount", "DropSingle",
             "DropZeroCs", "DropEntryRatio", "DropTotal", "DropTotalRatio", "CountDirs", "EntryRatioSwapped",
             "TotalRatioSwapped"]
PROTO_DEVS = ["DirectConstruct", "ReadBeforeValidate", "ReturnRejected", "XlsxSkipsValidate", "NoRestorePos"]
CLAUSES = ["Count", "Single", "ZeroCs", "EntryRatio", "Total", "TotRatio"]     # TotZero is implied by ZeroCs
FS_FULL, CS_FULL = "{0,1,2,3,4,5,6,7}", "{0,1,2,3}"
FS_RED, CS_RED = "{0,1,4,5,7}", "{0,1,3}"
BASE = 32768
TARGETS = ["docx", "pptx", "xlsx", "odt", "ods", "odp", "odg", "odf", "epub", "odfprobe"]
TR_CFG = f"SPECIFICATION TraceSpec\nCONSTRAINT TraceAccept\nCONSTANTS Deviations = {{}}\n FS = {{0}}\n CS = {{0}}\n" \
         f" MaxN = 0\n AttrBits = {{FALSE}}\n LimitSets <- LS_Base\n Base = {BASE}\n"

# Entry metadata the harnesses draw INDEPENDENTLY of the name (the only thing that makes an entry a directory):
# (external_attr, create_system, general-purpose flag bits, compression method).  The specification never
# sees them: its verdict depends on the name (trailing "/") and the two sizes only.
S_IFREG, S_IFDIR, S_IFLNK = 0o100000, 0o040000, 0o120000
META = [
    (0, 0, 0, 0),                                   # what zipfile.ZipInfo() defaults to (stored)
    ((S_IFREG | 0o644) << 16, 3, 0, 8),             # Unix regular file, deflated
    (0x10, 0, 0, 8),                                # MS-DOS directory bit
    (((S_IFREG | 0o644) << 16) | 0x10, 3, 0x800, 8),   # Unix regular file + DOS directory bit, UTF-8 flag
    ((S_IFDIR | 0o755) << 16, 3, 0, 8),             # Unix S_IFDIR, no DOS bit
    (((S_IFDIR | 0o755) << 16) | 0x10, 3, 0, 0),    # both directory markers, stored
    ((S_IFLNK | 0o777) << 16, 3, 0, 8),             # Unix symlink
    (0x01, 0, 0x08, 8),                             # DOS read-only, data-descriptor flag
    (0x20 | 0x02, 0, 0x02, 12),                     # DOS archive + hidden, bzip2
]
META_NAMES = ["default", "unix-file", "dos-dir", "unix-file|dos-dir", "unix-dir", "unix-dir|dos-dir,stored",
              "unix-symlink", "dos-readonly,dd-flag", "dos-archive,bzip2"]


def _loop_cfg(fs, cs, maxn, ls, dev="", invs=None, ab="{FALSE}"):
    invs = invs or ["Inv_LoopEqualsReject", "Inv_LoopConforms", "Inv_WhyFired", "Inv_Accumulators",
                    "Inv_TotZeroRedundant", "Inv_OracleConsistent"]
    d = "{" + (f'"{dev}"' if dev else "") + "}"
    return (f"SPECIFICATION Spec\nCONSTANTS Deviations = {d}\n FS = {fs}\n CS = {cs}\n MaxN = {maxn}\n"
            f" AttrBits = {ab}\n LimitSets <- {ls}\n" + "".join(f"INVARIANT {x}\n" for x in invs))


def _proto_cfg(dev=""):
    d = "{" + (f'"{dev}"' if dev else "") + "}"
    return (f"SPECIFICATION ProtoSpec\nCONSTANTS Deviations = {d}\n FS = {{0}}\n CS = {{0}}\n MaxN = 0\n"
            " AttrBits = {FALSE}\n LimitSets <- LS_Base\nINVARIANT Inv_ValidateBeforeRead\nINVARIANT Inv_RejectedNotHeld\n"
            "INVARIANT Inv_AcceptedAreGood\nPROPERTY Prop_PosRestored\n")


# Every concurrent TLC run gets a private scratch subdirectory (cfg, metadir, trace files do not mix).
_SEQ = itertools.count()


def _tlc(ctx, spec, cfg, **kw):
    d = ctx.scratch / f"tlc-{next(_SEQ)}"
    d.mkdir()
    return run_tlc(spec, cfg, scratch=d, **kw)


def _pvalidate(ctx, traces, nchunks, timeout=1500):
    """traces.validate on nchunks slices in parallel (each slice: one TLC, private scratch); verdicts in order."""
    if not traces:
        return validate("ZipGuardTrace", TR_CFG, traces, scratch=ctx.scratch)
    nchunks = max(1, min(nchunks, len(traces)))
    size = (len(traces) + nchunks - 1) // nchunks
    slices = [traces[k:k + size] for k in range(0, len(traces), size)]

    def one(sl):
        d = ctx.scratch / f"val-{next(_SEQ)}"
        d.mkdir()
        return validate("ZipGuardTrace", TR_CFG, sl, scratch=d, parallel=1, timeout=timeout)
    with ThreadPoolExecutor(max_workers=len(slices)) as ex:
        rs = list(ex.map(one, slices))
    br = rs[0]
    for r in rs[1:]:
        br.verdicts += r.verdicts
        br.states += r.states
        br.distinct += r.distinct
        br.wall_s = max(br.wall_s, r.wall_s)
    return br


# =========================================================================== driver
def run(ctx):
    ev, v = ctx.ev, ctx.v
    T = ctx.thorough
    pool = ThreadPoolExecutor(max_workers=8)
    t0 = time.time()

    def lap(what):
        ctx.log(f"  [{time.time() - t0:6.1f}s] {what}")

    # ---- 0. start the implementation-side workers that do not depend on TLC (they run while TLC runs)
    jobs = {}
    for tgt in TARGETS:
        jobs[("real", tgt)] = _spawn(ctx, "real", tgt, {"seed": ctx.seed, "thorough": T})
    nfx = 4
    for k in range(nfx):
        jobs[("fixtures", k)] = _spawn(ctx, "fixtures", str(k), {"seed": ctx.seed, "thorough": T, "k": k, "n": nfx})
    jobs[("pos", 0)] = _spawn(ctx, "pos", "0", {"seed": ctx.seed})

    # ---- 1. theorems on the specification
    fut = {}
    if T:
        fut["loop3"] = pool.submit(_tlc, ctx, "ZipGuard", _loop_cfg(FS_FULL, CS_FULL, 3, "LS_Three"),
                                   workers=6, timeout=1500, heap="6g")
        fut["loopvar"] = pool.submit(_tlc, ctx, "ZipGuard", _loop_cfg(FS_FULL, CS_FULL, 2, "LS_Variants"),
                                     workers=6, timeout=1500, heap="6g")
        fut["big"] = pool.submit(_tlc, ctx, "ZipGuardBig",
                                 _loop_cfg(FS_FULL, CS_FULL, 2, "LS_Quick", invs=["Inv_BigAgrees"])
                                 .replace("SPECIFICATION Spec", "SPECIFICATION BigSpec") + "CONSTANTS Base = 4\n",
                                 workers=2, timeout=1500)
    else:
        fut["loop3"] = pool.submit(_tlc, ctx, "ZipGuard", _loop_cfg(FS_RED, CS_RED, 3, "LS_Three"),
                                   workers=4, timeout=600)
        fut["loopvar"] = pool.submit(_tlc, ctx, "ZipGuard", _loop_cfg(FS_FULL, CS_FULL, 2, "LS_Quick"),
                                     workers=4, timeout=600)
        fut["big"] = pool.submit(_tlc, ctx, "ZipGuardBig",
                                 _loop_cfg(FS_RED, CS_RED, 2, "LS_Quick", invs=["Inv_BigAgrees"])
                                 .replace("SPECIFICATION Spec", "SPECIFICATION BigSpec") + "CONSTANTS Base = 4\n",
                                 workers=2, timeout=600)
    fut["alone"] = pool.submit(_tlc, ctx, "ZipGuard",
                               _loop_cfg(FS_FULL if T else FS_RED, CS_FULL if T else CS_RED, 2, "LS_Alone"),
                               workers=4, timeout=900)
    fut["meta"] = pool.submit(_tlc, ctx, "ZipGuard",
                              _loop_cfg(FS_FULL if T else FS_RED, CS_FULL if T else CS_RED, 2, "LS_Quick", ab="{FALSE, TRUE}"),
                              workers=4, timeout=900)
    fut["proto"] = pool.submit(_tlc, ctx, "ZipGuard", _proto_cfg(), workers=2, timeout=600)
    if os.environ.get("C11_DEV_SKIP_THEOREMS") == "1":      # development aid for the mutation self-test only:
        for k in ("loop3", "loopvar", "big", "meta", "alone"):   # skips spec-only runs, nothing about the code
            fut[k].cancel()
            fut[k] = fut["proto"]
    sens = {}
    # thorough: all 21 mutations of the specification; quick: DirByAttr, CountFilesOnly + 1 loop + 1 protocol (rotated)
    if os.environ.get("C11_DEV_SKIP_THEOREMS") == "1":
        LOOP, PROTO = [], PROTO_DEVS[:1]
    else:
        LOOP, PROTO = LOOP_DEVS, PROTO_DEVS
    loop_devs = LOOP if T else sorted({LOOP[0], LOOP[1], LOOP[2 + ctx.seed % (len(LOOP) - 2)]}) if LOOP else []
    proto_devs = PROTO if T else [PROTO[ctx.seed % len(PROTO)]]
    for d in loop_devs:
        sens[d] = pool.submit(_tlc, ctx, "ZipGuard",
                              _loop_cfg(FS_RED if d == "DirByAttr" else FS_FULL, CS_RED if d == "DirByAttr" else CS_FULL,
                                        2, "LS_Quick", dev=d, invs=["Inv_LoopConforms"],
                                        ab="{FALSE, TRUE}" if d == "DirByAttr" else "{FALSE}"),
                              workers=1, timeout=600, expect_fail=True, heap="1g")
    for d in proto_devs:
        sens[d] = pool.submit(_tlc, ctx, "ZipGuard", _proto_cfg(d), workers=1, timeout=600,
                              expect_fail=True, heap="1g")

    # ---- 2. (i) lattice: Gen dumps -> replay workers (start now, collect later)
    lat_jobs = _lattice_jobs(ctx)

    names = {"loop3": "ZipGuard loop = Reject, <= 3 entries, limits {L0, maxEntries 3}",
             "loopvar": "ZipGuard loop = Reject, <= 2 entries, " + ("243 limit variants" if T else "limits {L0, L1, L2}"),
             "big": "ZipGuardBig: limb predicate = integer predicate on the overlap (Base 4)",
             "alone": "ZipGuard loop = Reject, each limit tightened alone / loosened alone / all loose (11 limit sets)",
             "meta": "ZipGuard loop = Reject with the metadata bit free (verdict depends on name and sizes only)",
             "proto": "ZipGuard protocol: held => MayRead, rejected never held, position restored"}
    for k in ("loop3", "loopvar", "big", "alone", "meta", "proto"):
        r = fut[k].result()
        ev.tlc(names[k], r)
        if r.violated:
            v.violation(what=f"{names[k]}: {r.violated} violated on the specification", observed=r.trace[:3])
    lap("theorem runs done")
    for d, f in sens.items():
        r = f.result()
        ev.tlc(f"sensitivity {d}: must fail", r, note="expected violation")
        if not r.violated:
            raise MachineryError(f"sensitivity run {d} did not fail: the theorem is vacuous for this mutation")

    lap("sensitivity runs done")
    # ---- 3. collect (i)
    _collect_lattice(ctx, lat_jobs)
    lap("lattice decided")

    # ---- 4. collect (ii), (iii), (iv)
    outs = {k: _join(p, o, k) for k, (p, o) in jobs.items()}
    lap("implementation-side workers joined")
    _decide_real(ctx, [outs[("real", t)] for t in TARGETS])
    lap("real files decided")
    proto_traces = []
    for t in TARGETS:
        proto_traces += outs[("real", t)]["proto"]
    for k in range(nfx):
        proto_traces += outs[("fixtures", k)]["proto"]
    _decide_proto(ctx, proto_traces, outs[("pos", 0)]["proto"])
    lap("protocol traces decided")

    ev.set(rule="(i) every vector of the TLC-enumerated lattice (fs 0..7, cs 0..3, dir flag, <= 2 entries x limit "
                "sets, <= 3 entries x {maxEntries 2, 3}) replayed through validate_zipfile and decided by TLC; "
                "(ii) boundary vectors at the running code's default limits as real forged ZIPs x 10 targets decided "
                "by TLC on limb naturals; (iii) one protocol trace per (fixture, extractor) and per forged ZIP; "
                "non-trivial = distinct (limits, vector) / (target, vector) whose class is reject, plus protocol "
                "traces that contain a member read",
           exhaustive=True,
           constants={"lattice": "fs 0..7, cs 0..3, dir, L0=(2,4,6,2/1,3/1)", "limb_base": BASE, "targets": TARGETS})
    ev.assume("validation = a completed call of zip_bomb.validate_zipfile (wrapped by name in every module of the "
              "package); 'same bytes' = equal SHA-1 of the stream contents at ZipFile construction",
              "default-magnitude sizes are encoded by Python as little-endian base-2^15 limb sequences; the limb "
              "predicate is proven equal to the integer predicate by TLC only on the small overlap (Base = 4)",
              "the entry-count clause counts every central-directory record, directory records included (the "
              "unchanged code, DESIGN.md 4/C11); 'directories are ignored' applies to the size / ratio clauses",
              "the clause named in the error message is not checked (DON'T-CARE)")


# --------------------------------------------------------------------------- subprocess plumbing
def _spawn(ctx, mode, tag, job):
    inp = ctx.scratch / f"job-{mode}-{tag}.json"
    out = ctx.scratch / f"out-{mode}-{tag}.json"
    job = dict(job, scratch=str(ctx.scratch))
    inp.write_text(json.dumps(job))
    p = subprocess.Popen([PY, "-m", "mbv.props.c11", mode, tag, str(inp), str(out)], env=child_env(),
                         cwd=str(VERIF), stdout=subprocess.PIPE, stderr=subprocess.PIPE, text=True)
    return p, out


def _join(p, out, what, timeout=1500):
    try:
        so, se = p.communicate(timeout=timeout)
    except subprocess.TimeoutExpired:
        p.kill()
        raise MachineryError(f"worker {what} timed out")
    if p.returncode != 0:
        raise MachineryError(f"worker {what} failed (binding vanished?):\n{se[-3000:]}")
    return json.loads(out.read_text())


# --------------------------------------------------------------------------- (i) lattice
def _gen_cfg(fs, cs, maxn, lt):
    return f"SPECIFICATION Spec\nCONSTANTS\n FS = {fs}\n CS = {cs}\n MaxN = {maxn}\n LimitTuples <- {lt}\n"


def _lattice_jobs(ctx):
    """Gen runs (TLC enumerates the lattice and classifies every vector), each followed by a replay worker."""
    T = ctx.thorough
    specs = []                      # (tag, spec path, cfg)
    if not T:
        specs.append(("q2", "ZipGuardGen", _gen_cfg(FS_FULL, CS_FULL, 2, "LT_Quick")))
        specs.append(("q3", "ZipGuardGen", _gen_cfg(FS_RED, CS_RED, 3, "LT_L3")))
        specs.append(("qa", "ZipGuardGen", _gen_cfg(FS_RED, CS_RED, 2, "LT_Alone")))
    else:
        # ask TLC for the 243 limit variants, partition them into jobs through generated modules
        d0 = ctx.scratch / "lt.dump"
        r = _tlc(ctx, "ZipGuardGen", _gen_cfg("{0}", "{0}", 0, "LT_Variants"), dump=d0, workers=2)
        lts = sorted({tuple(s["lt"]) for s in iter_dump(_dump_path(d0))})
        if len(lts) != r.distinct or len(lts) != 243:
            raise MachineryError(f"expected 243 limit variants from TLC, got {len(lts)}")
        sdir = ctx.scratch / "specs"
        sdir.mkdir()
        for f in SPECS.glob("ZipGuard*.tla"):
            (sdir / f.name).write_text(f.read_text())
        parts = [lts[k::9] for k in range(9)]
        for k, part in enumerate(parts):
            name = f"ZipGuardGenJ{k}"
            (sdir / f"{name}.tla").write_text(
                f"---- MODULE {name} ----\nEXTENDS ZipGuardGen\nJobLimits == {to_tla(set(part))}\n====\n")
            specs.append((f"v{k}", sdir / f"{name}.tla", _gen_cfg(FS_FULL, CS_FULL, 2, "JobLimits")))
        for k, lt in enumerate(("{<<3, 4, 6, 2, 1, 3, 1>>}", "{<<2, 4, 6, 2, 1, 3, 1>>}")):
            name = f"ZipGuardGenT{k}"
            (sdir / f"{name}.tla").write_text(
                f"---- MODULE {name} ----\nEXTENDS ZipGuardGen\nJobLimits == {lt}\n====\n")
            specs.append((f"t{k}", sdir / f"{name}.tla", _gen_cfg(FS_FULL, CS_FULL, 3, "JobLimits")))
        specs.append(("ta", "ZipGuardGen", _gen_cfg(FS_FULL, CS_FULL, 2, "LT_Alone")))

    def one(item):
        tag, spec, cfg = item
        dump = ctx.scratch / f"gen-{tag}.dump"
        r = _tlc(ctx, spec, cfg, dump=dump, workers=2, timeout=1500, heap="3g")
        p, out = _spawn(ctx, "lattice", tag, {"dump": str(_dump_path(dump)), "distinct": r.distinct, "seed": ctx.seed})
        return tag, r, p, out
    ex = ThreadPoolExecutor(max_workers=6)
    return [ex.submit(one, it) for it in specs]


def _dump_path(d):
    return d if d.exists() else Path(str(d) + ".dump")


def _collect_lattice(ctx, futs):
    ev, v = ctx.ev, ctx.v
    total = nexec = 0
    for f in futs:
        tag, r, p, out = f.result()
        ev.tlc(f"ZipGuardGen {tag}: lattice vectors with TLC's class", r)
        res = _join(p, out, f"lattice {tag}")
        traces = []
        for fn in res["trace_files"]:
            traces += json.loads(Path(fn).read_text())
        ncase = sum(len(t["ev"]) for t in traces)
        if res["nvec"] != r.distinct or ncase < r.distinct:
            raise MachineryError(f"lattice {tag}: {res['nvec']} vectors / {ncase} observations replayed, TLC "
                                 f"enumerated {r.distinct}")
        nexec += res["nexec"]
        br = _pvalidate(ctx, traces, 10 if ctx.thorough else 4)
        ev.tlc_counts(f"ZipGuardTrace lattice {tag}: observations decided by TLC", br.distinct, br.states, br.wall_s)
        for t, tv in zip(traces, br.verdicts):
            if tv.accepted:
                v.ok(tv.length)
                continue
            # reached = -1: TLC rejected the trace but the core did not localise the event (more than 12 rejected
            # traces in the batch); for the message only, point at the first observation outside Gen's class
            k = tv.reached if tv.reached >= 0 else next(
                (j for j, x in enumerate(t["ev"]) if (x["exp"], x["obs"]) in (("reject", "ok"), ("accept", "bomb"))
                 or (x["obs"] == "other" and x["exp"] != "dontcare")), 0)
            e = t["ev"][k]
            v.violation(what=f"{e.get('ep', 'validate_zipfile')} on entries {e['es']} (fs, cs, dir) with limits "
                             f"(maxEntries, maxSingle, maxTotal, trNum, trDen, erNum, erDen) = {t['hdr']['lim']}: "
                             f"{ {'bomb': 'raised ExtractionZipBombError', 'ok': 'accepted', 'other': 'raised another exception'}[e['obs']]}"
                             f" [{e.get('exc', '')}] with entry metadata {e.get('meta')}, "
                             f"specification class = {e['exp']} (fired {e['fired']})",
                        case={"entries": e["es"], "limits": t["hdr"]["lim"]}, expected=e["exp"],
                        observed=e["obs"], where="zip_bomb.py:validate_zipfile")
            v.ok(max(tv.reached, 0))
        total += ncase
        for k, n in res["nontrivial"]:          # n vectors of class "reject" under limit set k of this job
            for j in range(n):
                ev.nontrivial(f"{tag}.{k}.{j}")
        for s in res["samples"]:
            ev.sample(s, cap=4)
        for fn in res["trace_files"]:
            Path(fn).unlink(missing_ok=True)
    ev.replayed(total)
    ctx.log(f"(i) {total} lattice observations ({nexec} executions of validate_zipfile: every vector under "
            f"{len(META)} entry-metadata variants + a mixed one, and as a real ZIP through validate_zipfile, "
            f"validate_zip_bytesio, open_zipfile with the lattice limits) decided by TLC")


# --------------------------------------------------------------------------- (ii) decide real-file observations
def _decide_real(ctx, outs):
    ev, v = ctx.ev, ctx.v
    traces, cover = [], []
    for o in outs:                  # one single-event trace per (target, case): every mismatch is reported
        for c in o["cases"]:
            cover.append({"a": "Cover", "k": len(cover) + 1, "gs": c["gs"]})
            traces.append({"id": f"real:{o['target']}:{c['label']}", "hdr": _hdr("big", blim=o["blim"]),
                           "ev": [{"a": "BigCase", "gs": c["gs"], "rej": c["rej"], "who": o["target"], "k": c["label"]}],
                           "cases": [c], "target": o["target"]})
    # TLC classifies every proposed vector (adequacy of the proposals: every clause alone, both classes)
    cf = ctx.scratch / "cover.json"
    cf.write_text(json.dumps([{"id": "cover", "hdr": traces[0]["hdr"], "ev": cover}]))
    r = _tlc(ctx, "ZipGuardTrace", TR_CFG, workers=1, timeout=900,
             env={"TRACE_FILE": str(cf), "MBV_PROGRESS": "0"})
    ev.tlc("ZipGuardTrace Cover: TLC classifies the default-magnitude vectors", r)
    cov = [x for x in r.printed_values() if isinstance(x, tuple) and x and x[0] == "COVER"]
    if len(cov) != len(cover):
        raise MachineryError(f"Cover run classified {len(cov)} of {len(cover)} vectors")
    sole = {c: 0 for c in CLAUSES}
    classes = {"reject": 0, "accept": 0, "dontcare": 0}
    for _, k, cls, fired in cov:
        classes[cls] += 1
        f = set(fired) - {"TotZero"}
        if len(f) == 1 and next(iter(f)) in sole:
            sole[next(iter(f))] += 1
    if min(sole.values()) == 0 or classes["accept"] == 0:
        raise MachineryError(f"default-magnitude vectors inadequate for the running limits: sole-clause hits {sole}, "
                             f"classes {classes}")
    ctx.log(f"(ii) TLC classes of {len(cover)} forged-ZIP cases: {classes}; sole-clause hits {sole}")
    br = _pvalidate(ctx, traces, 5 if ctx.thorough else 2)
    ev.tlc_counts("ZipGuardTrace real files: outcome classes decided by TLC (limb naturals)", br.distinct, br.states,
                  br.wall_s)
    covcls = {k: (cls, sorted(fired)) for _, k, cls, fired in cov}
    n = 0
    kk = 0
    for t, tv in zip(traces, br.verdicts):
        for j, c in enumerate(t["cases"]):
            kk += 1
            cls, fired = covcls[kk]
            if cls == "reject":
                ev.nontrivial(("real", t["target"], c["label"]))
        n += tv.length
        if tv.accepted:
            v.ok(tv.length)
            continue
        c = t["cases"][0]
        v.violation(what=f"{t['target']}: ZIP '{c['label']}' (default limits; forged / honest members {c['forged']}, "
                         f"{c['nentries']} entries) -> outcome {c['outcome']}; the specification says "
                         f"{'ZipBomb' if not c['rej'] else 'anything but ZipBomb'}",
                    case={"target": t["target"], "label": c["label"], "forged": c["forged"]},
                    expected="ZipBomb" if not c["rej"] else "accepted", observed=c["outcome"],
                    where="zip_bomb.py:validate_zipfile / open_zipfile / the extractor's error mapping")
    ev.replayed(n)
    for t in traces[len(traces) // 7:: max(1, len(traces) // 3)][:3]:
        c = t["cases"][0]
        ev.sample({"target": t["target"], "label": c["label"], "forged": c["forged"], "outcome": c["outcome"]}, cap=8)


def _hdr(kind, lim=None, blim=None):
    return {"kind": kind, "lim": lim or [2, 4, 6, 2, 1, 3, 1],
            "blim": blim or {"maxEntries": 1, "maxSingle": [1], "maxTotal": [1], "trNum": 1, "trDen": 1,
                             "erNum": 1, "erDen": 1}}


# --------------------------------------------------------------------------- (iii)/(iv) decide protocol traces
def _decide_proto(ctx, traces, pos_traces):
    ev, v = ctx.ev, ctx.v
    allt = [dict(t, hdr=_hdr("proto")) for t in traces + pos_traces]
    br = _pvalidate(ctx, allt, 6 if ctx.thorough else 2)
    ev.tlc_counts("ZipGuardTrace protocol: validate-before-read monitor, position restored", br.distinct, br.states,
                  br.wall_s)
    nread = 0
    for t, tv in zip(allt, br.verdicts):
        if any(e["a"] == "Read" for e in t["ev"]):
            nread += 1
            ev.nontrivial(("proto", t["id"]))
        if tv.accepted:
            v.ok(1)
            continue
        if tv.reached < 0:
            v.violation(what=f"{t['id']}: TLC rejects the recorded construct/validate/read order (event not "
                             f"localised): {[{k: x[k] for k in x if k != 'where'} for x in t['ev'][:14]]}",
                        case={"trace": t["id"], "events": t["ev"][:40]},
                        where="zip_bomb.py:open_zipfile/validate_zip_bytesio; zip_context.py; the extractor")
            continue
        e = t["ev"][tv.reached]
        if e["a"] == "Read":
            o = [x for x in t["ev"][:tv.reached] if x["a"] == "Construct" and x["o"] == e["o"]]
            what = (f"{t['id']}: member {e.get('member')!r} of a ZIP container opened for decompression before "
                    f"validate_zipfile accepted the container (ZipFile constructed at "
                    f"{o[0]['site'] if o else '?'}: {o[0].get('where') if o else '?'})")
        elif e["a"] == "VzbExit":
            ent = [x for x in t["ev"][:tv.reached] if x["a"] == "VzbEnter"][-1]
            what = (f"{t['id']}: validate_zip_bytesio entered with the stream at {ent['pos']} and left it at "
                    f"{e['pos']}")
        else:
            what = f"{t['id']}: protocol event {e} not allowed by ZipGuardTrace after {t['ev'][max(0, tv.reached - 3):tv.reached]}"
        v.violation(what=what, case={"trace": t["id"], "events": t["ev"][:tv.reached + 1][-12:]},
                    where="zip_bomb.py:open_zipfile/validate_zip_bytesio; zip_context.py; the extractor")
    ev.replayed(len(allt))
    ctx.log(f"(iii)/(iv) {len(allt)} protocol traces validated by TLC ({nread} with member reads, "
            f"{len(pos_traces)} stream-position traces)")
    for t in allt[:: max(1, len(allt) // 3)][:3]:
        ev.sample({"trace": t["id"], "events": [{k: x[k] for k in x if k != 'where'} for x in t["ev"][:8]]}, cap=8)


# =========================================================================== worker side
def _limbs(n):
    out = []
    while n:
        out.append(n % BASE)
        n //= BASE
    return out


class Recorder:
    """Wrappers on zipfile.ZipFile.__init__/open/read and zip_bomb.validate_zipfile/validate_zip_bytesio."""

    def __init__(self):
        import importlib
        import zipfile
        from sharepoint2text.parsing import router
        from sharepoint2text.parsing.extractors.util import zip_bomb
        import sharepoint2text.parsing.extractors.util.zip_context  # noqa
        import sharepoint2text.parsing.extractors.util.encryption  # noqa
        from sharepoint2text.parsing.exceptions import ExtractionZipBombError
        for name in ("validate_zipfile", "validate_zip_bytesio", "open_zipfile"):
            if not hasattr(zip_bomb, name):
                raise MachineryError(f"binding vanished: zip_bomb.{name}")
        for ft, (mod, fn) in router._EXTRACTOR_REGISTRY.items():
            importlib.import_module(mod)
        self.zipfile, self.zip_bomb, self.Bomb = zipfile, zip_bomb, ExtractionZipBombError
        self.pkg_root = os.path.realpath(os.path.dirname(sys.modules["sharepoint2text"].__file__)) + os.sep
        self.events = None
        self.objs = {}
        self.dig = {}
        self.depth = 0
        rec = self
        o_init, o_open, o_read = zipfile.ZipFile.__init__, zipfile.ZipFile.open, zipfile.ZipFile.read

        def w_init(zself, file, mode="r", *a, **kw):
            d = rec._digest(file) if rec.events is not None else None
            o_init(zself, file, mode, *a, **kw)
            if rec.events is not None:
                site, where = rec._site(sys._getframe(1))
                if mode != "r":
                    site = "write"
                rec.objs[id(zself)] = (len(rec.objs) + 1, zself)
                rec.events.append({"a": "Construct", "o": len(rec.objs), "d": rec.dig.setdefault(d, len(rec.dig) + 1),
                                   "site": site, "where": where})

        def w_open(zself, name, mode="r", *a, **kw):
            rec._read_event(zself, name, mode)
            rec.depth += 1
            try:
                return o_open(zself, name, mode, *a, **kw)
            finally:
                rec.depth -= 1

        def w_read(zself, name, *a, **kw):
            rec._read_event(zself, name, "r")
            rec.depth += 1
            try:
                return o_read(zself, name, *a, **kw)
            finally:
                rec.depth -= 1
        zipfile.ZipFile.__init__, zipfile.ZipFile.open, zipfile.ZipFile.read = w_init, w_open, w_read

        o_val, o_vzb = zip_bomb.validate_zipfile, zip_bomb.validate_zip_bytesio

        def w_val(zf, *a, **kw):
            try:
                r = o_val(zf, *a, **kw)
            except BaseException as ex:
                rec._val_event(zf, "reject", type(ex).__name__)
                raise
            rec._val_event(zf, "accept", "")
            return r

        def w_vzb(file_like, *a, **kw):
            if rec.events is not None:
                rec.events.append({"a": "VzbEnter", "pos": file_like.tell()})
            try:
                return o_vzb(file_like, *a, **kw)
            finally:
                if rec.events is not None:
                    rec.events.append({"a": "VzbExit", "pos": file_like.tell()})
        w_val.__wrapped__, w_vzb.__wrapped__ = o_val, o_vzb
        self.raw_validate = o_val
        for m in list(sys.modules.values()):
            if m is None or not getattr(m, "__name__", "").startswith("sharepoint2text"):
                continue
            for nm, old, new in (("validate_zipfile", o_val, w_val), ("validate_zip_bytesio", o_vzb, w_vzb)):
                if getattr(m, nm, None) is old:
                    setattr(m, nm, new)

    # -- helpers
    def _digest(self, file):
        try:
            if hasattr(file, "getbuffer"):
                return hashlib.sha1(file.getbuffer()).hexdigest()
            if isinstance(file, (str, os.PathLike)):
                return hashlib.sha1(Path(file).read_bytes()).hexdigest()
            pos = file.tell()
            file.seek(0)
            h = hashlib.sha1(file.read()).hexdigest()
            file.seek(pos)
            return h
        except Exception:
            return "obj-%d" % id(file)

    def _site(self, fr):
        """Who constructed the ZipFile: nearest frame inside the package, and what lies in between."""
        via = set()
        while fr is not None:
            fn = os.path.realpath(fr.f_code.co_filename)
            if fn.startswith(self.pkg_root) and os.sep + "tests" + os.sep not in fn:
                base, func = os.path.basename(fn), fr.f_code.co_name
                where = f"{base}:{func}" + (f" via {','.join(sorted(via))}" if via else "")
                if "openpyxl" in via:
                    return "openpyxl", where
                if via - {"zipfile"}:
                    return "foreign", where
                if base == "zip_bomb.py" and func in ("open_zipfile", "validate_zip_bytesio"):
                    return func, where
                if base == "zip_context.py":
                    return "ZipContext", where
                if base == "archive_extractor.py":
                    return "archive", where
                return "foreign", where
            if "site-packages" in fn:
                top = fn.split(os.sep + "site-packages" + os.sep)[-1].split(os.sep)[0].removesuffix(".py")
            else:
                top = os.path.basename(fn).removesuffix(".py")
                if top == "__init__":
                    top = os.path.basename(os.path.dirname(fn))
            if "mbv" + os.sep + "props" not in fn:
                via.add(top)
            fr = fr.f_back
        return "harness", "outside the package"

    def _read_event(self, zself, name, mode):
        if self.events is None or self.depth or mode != "r":
            return
        o = self.objs.get(id(zself))
        if o is None:
            return
        nm = getattr(name, "filename", name)
        self.events.append({"a": "Read", "o": o[0], "member": str(nm)[:80]})

    def _val_event(self, zf, res, exc):
        if self.events is None:
            return
        o = self.objs.get(id(zf))
        if o is None:
            return
        self.events.append({"a": "Validate", "o": o[0], "res": res, "exc": exc})

    def session(self, tid, fn):
        """Run fn() as one recorded session; returns (trace, outcome)."""
        self.events, self.objs, self.dig, self.depth = [], {}, {}, 0
        try:
            try:
                r = fn()
                if hasattr(r, "__next__"):
                    for _ in r:
                        pass
                outcome = "ok"
            except self.Bomb:
                outcome = "ZipBomb"
            except BaseException as ex:  # noqa
                if isinstance(ex, (KeyboardInterrupt, SystemExit)):
                    raise
                outcome = "other:" + type(ex).__name__
        finally:
            evs = self.events
            self.events, self.objs = None, {}
        return {"id": tid, "ev": evs}, outcome


def _extractors():
    from sharepoint2text.parsing import router
    from sharepoint2text.parsing.extractors.util import encryption
    out = {}
    for t in TARGETS[:-1]:
        try:
            out[t] = router.get_extractor("x." + t)
        except Exception as ex:
            raise MachineryError(f"no extractor for .{t}: {ex!r}")
    if not hasattr(encryption, "is_odf_encrypted"):
        raise MachineryError("binding vanished: encryption.is_odf_encrypted")
    out["odfprobe"] = lambda bio, path=None: encryption.is_odf_encrypted(bio)
    return out


def _fixtures():
    root = REPO / "sharepoint2text" / "tests" / "resources"
    if not root.is_dir():
        raise MachineryError(f"fixtures not found: {root}")
    return sorted(p for p in root.rglob("*") if p.is_file())


CONTAINER_EXT = {"docx", "docm", "pptx", "pptm", "xlsx", "xlsm", "odt", "ods", "odp", "odg", "odf", "epub"}


# ---- (i) lattice replay
def _w_lattice(tag, job, out):
    import zipfile
    from sharepoint2text.parsing.exceptions import ExtractionZipBombError
    from sharepoint2text.parsing.extractors.util import zip_bomb
    for nm in ("validate_zipfile", "ZipBombLimits"):
        if not hasattr(zip_bomb, nm):
            raise MachineryError(f"binding vanished: zip_bomb.{nm}")

    class Stub:                       # validate_zipfile only calls zf.infolist()
        def __init__(self, infos):
            self._i = infos

        def infolist(self):
            return self._i
    infos = {}

    def info(fs, cs, d, m):
        # the NAME decides `d` (trailing slash); the metadata variant m is drawn independently of it
        k = (fs, cs, d, m)
        if k not in infos:
            zi = zipfile.ZipInfo("d%d_%d/" % (fs, cs) if d else "f%d_%d.bin" % (fs, cs))
            zi.file_size, zi.compress_size = fs, cs
            zi.external_attr, zi.create_system, zi.flag_bits, zi.compress_type = META[m]
            if zi.filename.endswith("/") != bool(d) or bool(zi.is_dir()) != bool(d):
                raise MachineryError("ZipInfo.is_dir does not follow the trailing slash of the name")
            infos[k] = zi
        return infos[k]
    rng = random.Random(job.get("seed", 0) * 104729 + sum(map(ord, tag)))
    # every public entry point of the guard that takes `limits`, driven with the SAME non-default limits object:
    # validate_zipfile on a real ZipFile, and every function taking a stream (validate_zip_bytesio, open_zipfile,
    # anything else the module exports with that shape)
    import inspect
    stream_eps = []
    for nm, fn in sorted(vars(zip_bomb).items()):
        if nm.startswith("_") or not inspect.isfunction(fn) or fn.__module__ != zip_bomb.__name__:
            continue
        ps = inspect.signature(fn).parameters
        if "limits" in ps and nm != "validate_zipfile":
            stream_eps.append((nm, fn))
    for need in ("validate_zip_bytesio", "open_zipfile"):
        if need not in dict(stream_eps):
            raise MachineryError(f"binding vanished: zip_bomb.{need}(..., limits=)")

    def observe(call):
        try:
            r = call()
            if hasattr(r, "close"):
                r.close()
            return "ok", ""
        except ExtractionZipBombError as ex:
            return "bomb", str(ex)[:60]
        except Exception as ex:             # wrong exception type: neither the bomb error nor acceptance
            return "other", type(ex).__name__
    bylim = {}
    n = 0
    for s in iter_dump(job["dump"]):
        bylim.setdefault(tuple(s["lt"]), []).append((tuple(tuple(e) for e in s["v"]), str(s["exp"]), sorted(s["fired"])))
        n += 1
    if n != job["distinct"]:
        raise MachineryError(f"dump has {n} states, TLC reported {job['distinct']}")
    traces, nontrivial, samples = [], [], []
    nexec = nvec = 0
    for lt in sorted(bylim):
        me, ms, mt, trn, trd, ern, erd = lt
        limits = zip_bomb.ZipBombLimits(max_entries=me, max_total_uncompressed_bytes=mt,
                                        max_single_uncompressed_bytes=ms,
                                        max_total_compression_ratio=trn / trd,
                                        max_entry_compression_ratio=ern / erd)
        if Fraction(limits.max_total_compression_ratio) != Fraction(trn, trd) or \
                Fraction(limits.max_entry_compression_ratio) != Fraction(ern, erd):
            raise MachineryError("ratio limit not exactly representable as float")
        evs = []
        nt = 0
        for vec, exp, fired in sorted(bylim[lt]):
            # every vector is executed under each metadata variant on all entries + one seeded mixed assignment;
            # the specification does not see the metadata, so one event per DISTINCT observation is recorded
            assigns = [[m] * len(vec) for m in range(len(META))] if vec else [[]]
            if len(vec) > 1:
                assigns.append([rng.randrange(len(META)) for _ in vec])
            seen = {}
            for asg in assigns:
                zf = Stub([info(*e, m) for e, m in zip(vec, asg)])
                obs, exc = observe(lambda: zip_bomb.validate_zipfile(zf, limits=limits, source="c11"))
                nexec += 1
                seen.setdefault(obs, (exc, asg, "validate_zipfile(ZipInfo list)"))
            # the same vector as a real ZIP (local and central headers forged to the lattice sizes), through every
            # entry point with the same limits object
            asg = assigns[nvec % len(assigns)]
            nvec += 1
            data = build_zip([_member("%d_%s" % (j, info(*e, m).filename), b"", fs=e[0], cs=e[1], is_dir=bool(e[2]),
                                      stored=True, meta=m) for j, (e, m) in enumerate(zip(vec, asg))])
            with zipfile.ZipFile(io.BytesIO(data)) as rz:
                if [(zi.file_size, zi.compress_size, 1 if zi.filename.endswith("/") else 0) for zi in rz.infolist()] \
                        != [tuple(e) for e in vec]:
                    raise MachineryError(f"lattice ZIP for {vec} reads back differently")
                obs, exc = observe(lambda: zip_bomb.validate_zipfile(rz, limits=limits, source="c11"))
                seen.setdefault(obs, (exc, asg, "validate_zipfile(real ZipFile)"))
            for nm, fn in stream_eps:
                obs, exc = observe(lambda: fn(io.BytesIO(data), limits=limits, source="c11"))
                seen.setdefault(obs, (exc, asg, nm + "(real ZIP bytes)"))
            nexec += 1 + len(stream_eps)
            for obs, (exc, asg, ep) in sorted(seen.items()):
                evs.append({"a": "Case", "es": [list(e) for e in vec], "obs": obs, "exp": exp, "fired": fired,
                            "exc": exc, "ep": "all entry points" if len(seen) == 1 else ep,
                            "meta": "all %d metadata assignments" % len(assigns) if len(seen) == 1
                            else [META_NAMES[m] for m in asg]})
            if exp == "reject":
                nt += 1
        nontrivial.append((list(lt), nt))
        if len(samples) < 2:
            e = evs[len(evs) // 2]
            samples.append({"limits": list(lt), "entries": e["es"], "spec_class": e["exp"], "fired": e["fired"],
                            "validate_zipfile": e["obs"]})
        for k in range(0, len(evs), 1000):
            traces.append({"id": f"lat:{tag}:{'-'.join(map(str, lt))}:{k}", "hdr": _hdr("lattice", lim=list(lt)),
                           "ev": evs[k:k + 1000]})
    files = []
    for k in range(0, len(traces), 200):
        fn = Path(job["scratch"]) / f"lat-{tag}-{k}.json"
        fn.write_text(json.dumps(traces[k:k + 200]))
        files.append(str(fn))
    Path(out).write_text(json.dumps({"trace_files": files, "nvec": n, "nexec": nexec, "nontrivial": [[i, n] for i, (lt, n) in enumerate(nontrivial) if n],
                                     "samples": samples}))


# ---- (ii) forged real ZIPs
def _deflate(b):
    c = zlib.compressobj(6, zlib.DEFLATED, -15)
    return c.compress(b) + c.flush()


def build_zip(members):
    """members: dicts name, raw (bytes as stored in the file), method, crc, fs, cs, dir.  fs/cs are what the
    local AND central headers claim (zip64 extra fields when >= 2^32 - 1)."""
    out = io.BytesIO()
    cd = []
    for m in members:
        name = m["name"].encode("utf-8")
        flags = (0x800 if any(c > 127 for c in name) else 0) | m.get("flags", 0)
        attr = m.get("attr")
        if attr is None:
            attr = (0o40755 << 16) | 0x10 if m["dir"] else (0o100644 << 16)
        system = m.get("system", 3)
        z64 = m["fs"] >= 0xFFFFFFFF or m["cs"] >= 0xFFFFFFFF
        extra = struct.pack("<HHQQ", 1, 16, m["fs"], m["cs"]) if z64 else b""
        fs32 = 0xFFFFFFFF if z64 else m["fs"]
        cs32 = 0xFFFFFFFF if z64 else m["cs"]
        ver = 45 if z64 else 20
        off = out.tell()
        out.write(struct.pack("<4sHHHHHIIIHH", b"PK\x03\x04", ver, flags, m["method"], 0, 0x21, m["crc"], cs32, fs32,
                              len(name), len(extra)) + name + extra + m["raw"])
        cd.append(struct.pack("<4sHHHHHHIIIHHHHHII", b"PK\x01\x02", (system << 8) | ver, ver, flags, m["method"], 0,
                              0x21, m["crc"], cs32, fs32, len(name), len(extra), 0, 0, 0, attr, off) + name + extra)
    cd_off = out.tell()
    blob = b"".join(cd)
    out.write(blob)
    if len(members) > 0xFFFF:
        raise MachineryError("more than 65535 entries need a zip64 end record (not implemented)")
    out.write(struct.pack("<4sHHHHIIH", b"PK\x05\x06", 0, 0, len(members), len(members), len(blob), cd_off, 0))
    return out.getvalue()


def _member(name, payload, fs=None, cs=None, is_dir=False, stored=False, meta=None, forged_method=False):
    """is_dir must equal name.endswith("/") (the name decides).  meta = index into META: external_attr,
    create_system, flag bits -- and, for forged members only (nobody reads them), the claimed method."""
    if is_dir != name.endswith("/"):
        raise MachineryError("harness: directory entries are exactly the names ending in '/'")
    raw = payload if stored else _deflate(payload)
    m = {"name": name, "raw": raw, "method": 0 if stored else 8, "crc": zlib.crc32(payload) & 0xFFFFFFFF,
         "fs": len(payload) if fs is None else fs, "cs": len(raw) if cs is None else cs, "dir": is_dir}
    if meta is not None:
        m["attr"], m["system"], m["flags"], meth = META[meta]
        m["meta"] = meta
        if forged_method:
            m["method"] = meth
    return m


def _base_members(path):
    import zipfile
    ms = []
    with zipfile.ZipFile(path) as zf:
        for zi in zf.infolist():
            if zi.is_dir():
                ms.append(_member(zi.filename, b"", is_dir=True, stored=True))
            else:
                data = zf.read(zi)
                ms.append(_member(zi.filename, data, stored=(zi.compress_type == 0)))
    return ms


def propose(lim, bU, bC, bN, rng):
    """Boundary cases at the running limits.  A case = dict(label, forged=[(fs, cs, dir, meta)], honest=[(kind,
    meta)], npf, npd, base_meta).  forged: members whose local AND central headers claim (fs, cs); honest: really
    compressed members (no forged sizes); meta: index into META (None = plain), drawn independently of the
    name.  Only concretisation: TLC classifies every case (Cover) and decides every observation."""
    ME, MS, MT = lim["me"], lim["ms"], lim["mt"]
    TR, ER = Fraction(lim["trn"], lim["trd"]), Fraction(lim["ern"], lim["erd"])
    V = []

    def case(label, forged=(), honest=(), npf=0, npd=0, base_meta=None):
        V.append({"label": label, "forged": [tuple(e) + (None,) * (4 - len(e)) for e in forged],
                  "honest": list(honest), "npf": npf, "npd": npd, "base_meta": base_meta})
    case("base")

    def ballast(fs, cs):
        # entry with ratio 1 that keeps the whole-container ratio below its limit
        if TR <= 1:
            return []
        need = (Fraction(bU + fs) - TR * (bC + cs)) / (TR - 1)
        x = max(0, int(need) + 1) + 1000
        return [(x, x, 0)]

    def single(d, m=None):
        return [(MS + d, MS + d, 0, m)]

    def entry_ratio(d, c0=None, m=None):
        c0 = c0 or lim["erd"] * 1000
        fs = int(ER * c0) + d
        return [(fs, c0, 0, m)] + ballast(fs, c0)

    def total(d, m=None):
        rem, out = MT + d - bU, []
        while rem > MS:
            out.append((MS, MS, 0, m))
            rem -= MS
        return out + [(rem, rem, 0, m)]

    def tot_ratio(d, c0=None, m=None):
        c0 = c0 or max(100000, 2 * bC)
        c0 += (-(bC + c0)) % lim["trd"]
        fs = int(TR * (bC + c0)) - bU + d
        return [(max(fs, 0), c0, 0, m)]
    for d in (-1, 0, 1):
        case(f"single{d:+d}", single(d))
        case(f"entryratio{d:+d}", entry_ratio(d))
        case(f"total{d:+d}", total(d))
        case(f"totratio{d:+d}", tot_ratio(d))
    case("zerocs fs=1", [(1, 0, 0), (5, 5, 0)])
    case("zerocs fs=0", [(0, 0, 0)])
    case("fs=0 cs=7", [(0, 7, 0)])
    case("dir huge", [(MS + 1, 1, 1)])
    case("dir zero cs", [(3 * MS, 0, 1)])
    case("dir zip64", [(2 ** 33 + 5, 2 ** 33 + 5, 1)])
    case("zip64 single", [(2 ** 32 + 5, 2 ** 32 + 5, 0)])
    case("single+zerocs", [(MS + 1, 0, 0)])
    case("single+1 and ratio", [(MS + 1, 1000, 0)])
    if ME + 1 <= 0xFFFF and ME - bN >= 1:
        case("count+0", npf=ME - bN)
        case("count+1", npf=ME + 1 - bN)
        case("count+1 incl 1 dir", npf=ME - bN, npd=1)
        case("count+0 through directory records", npd=ME - bN)
        case("count+1 through directory records", npd=ME + 1 - bN)
        case("count+1 half files half directories", npf=(ME + 1 - bN) // 2, npd=(ME + 1 - bN) - (ME + 1 - bN) // 2)
    # entry metadata, independent of the name: every clause's rejecting vector with each metadata variant on
    # the offending REGULAR member; real directory entries (trailing slash) with each variant; honest bombs
    for m in range(len(META)):
        mn = META_NAMES[m]
        case(f"single+1 [{mn}]", single(1, m=m))
        case(f"entryratio+1 [{mn}]", entry_ratio(1, m=m))
        case(f"totratio+1 [{mn}]", tot_ratio(1, m=m))
        case(f"total+1 [{mn}]", total(1, m=m))
        case(f"zerocs fs=1 [{mn}]", [(1, 0, 0, m), (5, 5, 0, m)])
        case(f"dir huge [{mn}]", [(MS + 1, 1, 1, m), (3 * MS, 0, 1, m)])
        case(f"honest bomb [{mn}]", honest=[("bomb", m)])
    case("honest ratio~200 [default]", honest=[("mild", 0)])
    case("honest ratio~200 [dos-dir]", honest=[("mild", 2)])
    case("honest bomb, plain", honest=[("bomb", None)])
    case("total+1, every base member [dos-dir]", total(1), base_meta=2)
    case("base, every base member [unix-dir|dos-dir]", base_meta=5)
    case("base, every base member [unix-symlink]", base_meta=6)
    fam = [single, entry_ratio, total, tot_ratio]
    for k in range(4):
        f = rng.choice(fam)
        d = rng.choice((-1, 0, 1))
        m = rng.randrange(len(META))
        if f in (entry_ratio, tot_ratio):
            c0 = rng.randrange(1, 4000) * lim["erd"] * lim["trd"] * (1 if f is entry_ratio else 500)
            case(f"rnd{k} {f.__name__}{d:+d} c0={c0} [{META_NAMES[m]}]", f(d, c0, m=m))
        else:
            case(f"rnd{k} {f.__name__}{d:+d} +noise [{META_NAMES[m]}]", f(d, m=m) + [(0, rng.randrange(0, 9), 0, m)])
    return V


_HONEST = {}


def _honest_payload(kind):
    """Really compressible content (no forged sizes): 'bomb' deflates about 1000:1, 'mild' about 200:1."""
    if kind not in _HONEST:
        if kind == "bomb":
            _HONEST[kind] = b"<p>hello</p>" + b" " * 3_000_000
        else:
            noise = b"".join(hashlib.sha256(b"c11-%d" % k).digest() for k in range(80))     # 2560 incompressible bytes
            _HONEST[kind] = noise + b" " * 600_000
    return _HONEST[kind]


def _w_real(tag, job, out):
    import zipfile
    from sharepoint2text.parsing.extractors.util import zip_bomb
    rec = Recorder()
    D = getattr(zip_bomb, "DEFAULT_ZIP_BOMB_LIMITS", None)
    if D is None:
        raise MachineryError("binding vanished: zip_bomb.DEFAULT_ZIP_BOMB_LIMITS")
    TRf, ERf = Fraction(D.max_total_compression_ratio), Fraction(D.max_entry_compression_ratio)
    lim = {"me": int(D.max_entries), "ms": int(D.max_single_uncompressed_bytes), "mt": int(D.max_total_uncompressed_bytes),
           "trn": TRf.numerator, "trd": TRf.denominator, "ern": ERf.numerator, "erd": ERf.denominator}
    if max(lim["trn"], lim["trd"], lim["ern"], lim["erd"]) >= 65536 or lim["me"] >= 2 ** 31:
        raise MachineryError(f"running default limits not representable in ZipGuardBig: {lim}")
    blim = {"maxEntries": lim["me"], "maxSingle": _limbs(lim["ms"]), "maxTotal": _limbs(lim["mt"]),
            "trNum": lim["trn"], "trDen": lim["trd"], "erNum": lim["ern"], "erDen": lim["erd"]}
    ext = "odt" if tag == "odfprobe" else tag
    cands = [p for p in _fixtures() if p.suffix == "." + ext and "password" not in str(p)]
    if not cands:
        raise MachineryError(f"no fixture with extension .{ext}")
    basep = min(cands, key=lambda p: (p.stat().st_size, str(p)))
    base = _base_members(basep)
    bU = sum(m["fs"] for m in base if not m["dir"])
    bC = sum(m["cs"] for m in base if not m["dir"])
    fn = _extractors()[tag]
    rng = random.Random(job["seed"] * 7919 + TARGETS.index(tag))
    cases, proto = [], []
    honest_cache = {}
    for c in propose(lim, bU, bC, len(base), rng):
        label, forged, npf, npd = c["label"], c["forged"], c["npf"], c["npd"]
        ms = list(base)
        if c["base_meta"] is not None:          # same members, same bytes, other metadata
            a, sy, fl, _ = META[c["base_meta"]]
            ms = [dict(m, attr=a, system=sy, flags=fl, meta=c["base_meta"]) for m in base]
        for k, (fs, cs, d, mi) in enumerate(forged):
            ms.append(_member(f"zz-forged/d{k}/" if d else f"zz-forged/f{k}.bin", b"" if d else b"forged payload",
                              fs=fs, cs=cs, is_dir=bool(d), stored=bool(d), meta=mi, forged_method=not d))
        for k, (kind, mi) in enumerate(c["honest"]):
            if kind not in honest_cache:
                honest_cache[kind] = _member(f"zz-honest/{kind}.xml", _honest_payload(kind))
            hm = dict(honest_cache[kind], name=f"zz-honest/{kind}{k}.xml")
            if mi is not None:
                hm["attr"], hm["system"], hm["flags"], _ = META[mi]        # really deflated: method stays 8
                hm["meta"] = mi
            ms.append(hm)
        ms += [_member(f"zz-pad/{k:05d}.txt", b"x", stored=True) for k in range(npf)]
        ms += [_member(f"zz-pad/dir{k:05d}/", b"", is_dir=True, stored=True) for k in range(npd)]
        data = build_zip(ms)
        # the vector TLC decides on is what the stdlib reads back from the file; the dir bit is the NAME's
        with zipfile.ZipFile(io.BytesIO(data)) as zf:
            infos = zf.infolist()
            seen = [(zi.file_size, zi.compress_size, 1 if zi.filename.endswith("/") else 0) for zi in infos]
            for zi, m in zip(infos, ms):
                if "meta" in m and (zi.external_attr, zi.create_system, zi.flag_bits & ~0x800) != \
                        (m["attr"], m["system"], m["flags"] & ~0x800):
                    raise MachineryError(f"forged ZIP '{label}': metadata of {zi.filename} reads back differently")
                if bool(zi.is_dir()) != zi.filename.endswith("/"):
                    raise MachineryError("zipfile.ZipInfo.is_dir() does not follow the trailing slash of the name")
            for k, (kind, mi) in enumerate(c["honest"]):     # honest members really inflate to their claimed size
                zi = zf.getinfo(f"zz-honest/{kind}{k}.xml")
                if len(zf.read(zi)) != zi.file_size:
                    raise MachineryError("honest member does not inflate to its size")
        want = [(m["fs"], m["cs"], 1 if m["dir"] else 0) for m in ms]
        if seen != want:
            raise MachineryError(f"forged ZIP '{label}' reads back differently: {seen[-3:]} vs {want[-3:]}")
        gs = []
        for e in seen:
            if gs and gs[-1][1:] == [_limbs(e[0]), _limbs(e[1]), e[2]] and gs[-1][0] < 60000:
                gs[-1][0] += 1
            else:
                gs.append([1, _limbs(e[0]), _limbs(e[1]), e[2]])
        tr, outcome = rec.session(f"real:{tag}:{label}", lambda: fn(io.BytesIO(data), "forged." + ext))
        proto.append(tr)
        honest = [(kind, len(_honest_payload(kind)), honest_cache[kind]["cs"]) for kind, _ in c["honest"]]
        cases.append({"label": label, "forged": [list(e[:3]) for e in forged] + [["honest"] + list(h) for h in honest],
                      "nentries": len(seen), "gs": gs, "rej": outcome == "ZipBomb", "outcome": outcome})
    Path(out).write_text(json.dumps({"target": tag, "blim": blim, "cases": cases, "proto": proto,
                                     "base": str(basep)}))


# ---- (iii) fixtures x extractors
def _w_fixtures(tag, job, out):
    import sharepoint2text
    rec = Recorder()
    exs = _extractors()
    files = [p for p in _fixtures() if p.suffix.lstrip(".").lower() in CONTAINER_EXT | {"zip"}]
    if len(files) < 10:
        raise MachineryError(f"only {len(files)} ZIP-container fixtures found")
    mine = files[job["k"]::job["n"]]
    proto, outcomes = [], {}
    for p in mine:
        rel = str(p.relative_to(REPO))
        data = p.read_bytes()
        tr, oc = rec.session(f"fixture:read_file:{rel}", lambda: sharepoint2text.read_file(str(p)))
        proto.append(tr)
        outcomes[tr["id"]] = oc
        if p.suffix == ".zip":
            continue
        for t, fn in sorted(exs.items()):
            tr, oc = rec.session(f"fixture:{t}:{rel}", lambda: fn(io.BytesIO(data), "x." + t))
            proto.append(tr)
            outcomes[tr["id"]] = oc
    Path(out).write_text(json.dumps({"proto": proto, "outcomes": outcomes}))


# ---- (iv) stream position
def _w_pos(tag, job, out):
    import zipfile
    from sharepoint2text.parsing.extractors.util import zip_bomb
    rec = Recorder()
    vzb = zip_bomb.validate_zip_bytesio           # the recording wrapper
    good = build_zip([_member("a.txt", b"hello world " * 40), _member("b/", b"", is_dir=True, stored=True)])
    bomb = build_zip([_member("a.txt", b"A" * 20000)])
    notzip = b"this is not a zip file at all " * 20
    low = zip_bomb.ZipBombLimits(max_entry_compression_ratio=10.0, max_total_compression_ratio=10.0)
    rng = random.Random(job["seed"])
    proto = []
    for name, data, kw in (("good", good, {}), ("bomb", bomb, {"limits": low}), ("notzip", notzip, {}),
                           ("bomb-by-count", good, {"limits": zip_bomb.ZipBombLimits(max_entries=1)})):
        for pos in sorted({0, 1, len(data) // 2, rng.randrange(2, len(data) - 1), len(data) - 1, len(data)}):
            bio = io.BytesIO(data)
            bio.seek(pos)
            tr, oc = rec.session(f"pos:{name}:{pos}", lambda: vzb(bio, source="c11", **kw))
            if not any(e["a"] == "VzbExit" for e in tr["ev"]):
                raise MachineryError("validate_zip_bytesio wrapper recorded nothing")
            tr["outcome"] = oc
            proto.append(tr)
    Path(out).write_text(json.dumps({"proto": proto}))


if __name__ == "__main__":
    mode, tag, inp, out = sys.argv[1:5]
    job = json.loads(Path(inp).read_text())
    {"lattice": _w_lattice, "real": _w_real, "fixtures": _w_fixtures, "pos": _w_pos}[mode](tag, job, out)
