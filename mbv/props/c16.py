"""C16 -- e-mail: headers, bodies, attachments and mailbox boundaries are exact.
Specs: specs/Mail.tla (+ MailGen, MailTrace), specs/Mbox.tla (+ MboxTrace).  Concretiser: mbv/c16_mailgen.py.

1. TLC proves on ALL line-class sequences up to MaxLen (x final-newline flag) that the model of
   mbox_email_extractor._split_mbox_messages (the MBOX_FROM_PATTERN line classifier + the
   rstrip / skip-empty rule) returns exactly the declarative Messages(lines); two sensitivity runs
   (classifier without the year test / without the ^ anchor) must fail.
2. TLC enumerates the abstract messages (MailGen: one-dimension-at-a-time cover around two base
   messages; thorough: + pairwise) and checks the body-selection theorem on each (+ sensitivity).
3. spec -> code: every abstract message is concretised with the standard library only, parsed as
   .eml (mailparser path) and inside an mbox written by mailbox.mbox (stdlib path); every
   line-class sequence of the Mbox universe is concretised and pushed through
   _split_mbox_messages and read_mbox_format_mail.
4. code -> spec: the projected observations are validated by TLC against MailTrace (Mail!Accept =
   Expected(m) modulo the stated DON'T-CAREs) and MboxTrace (Messages(lines)).  Rejected message
   traces are re-validated with the as-built deviation of the open finding KF-C16-01; only a case
   accepted there is reported as KNOWN-FINDING.
   Every observation also carries the e-mail clause of C03 (no other suite has an e-mail writer): one unit
   of the right body type, get_full_text() = that body, and joinok = (get_full_text() == trimmed
   newline-join of the unit texts) -- conjuncts of Mail!Accept / Mail!Presence, decided by TLC.
5. The five mail fixtures (incl. the two .msg files, for which no writer exists) are traced against
   the field-presence clause only.
"""
from __future__ import annotations

import base64
import copy
import hashlib
import io
import json
import random
import re
import subprocess
import sys
import time
from pathlib import Path

from .. import PY, REPO, VERIF
from ..repo import child_env
from ..tlaval import iter_dump, parse
from ..tlc import MachineryError, run_tlc
from ..traces import BatchResult, TraceVerdict

NWORK = 12
FIX_DOCX = "sharepoint2text/tests/resources/modern_ms/headings.docx"
FIXTURES = [("basic_email.eml", "eml", 0, ""), ("msg_with_attachment.eml", "eml", 2, ""),
            ("basic_email.mbox", "mbox", 0, ""), ("basic_email.msg", "msg", 2, ""),
            ("msg_with_attachment.msg", "msg", 2, "msg_with_attachment.eml")]
KF = "KF-C16-01"


def _plain(v):
    """tlaval value -> JSON-able (tuples -> lists, FD -> dict)."""
    if isinstance(v, dict):
        return {k: _plain(x) for k, x in v.items()}
    if isinstance(v, (tuple, list)):
        return [_plain(x) for x in v]
    return v


def _case_id(m) -> str:
    return hashlib.sha256(json.dumps(m, sort_keys=True).encode()).hexdigest()[:12]


def _run_workers(ctx, kind, items, extra=None, nwork=NWORK):
    """Split items over subprocess workers; returns the concatenated outputs (input order)."""
    n = max(1, min(nwork, (len(items) + 7) // 8))
    size = (len(items) + n - 1) // n
    procs = []
    for w in range(n):
        chunk = items[w * size:(w + 1) * size]
        if not chunk:
            continue
        inp = ctx.scratch / f"{kind}-in-{w}.json"
        out = ctx.scratch / f"{kind}-out-{w}.json"
        wd = ctx.scratch / f"{kind}-wd-{w}"
        wd.mkdir(exist_ok=True)
        inp.write_text(json.dumps({"items": chunk, "seed": ctx.seed, "w": w, **(extra or {})}))
        procs.append((out, subprocess.Popen([PY, "-m", "mbv.props.c16", "worker", kind, str(inp), str(out), str(wd)],
                                            env=child_env(), cwd=str(VERIF), stdout=subprocess.PIPE,
                                            stderr=subprocess.PIPE, text=True)))
    res = []
    for out, p in procs:
        so, se = p.communicate(timeout=3000)
        if p.returncode != 0:
            raise MachineryError(f"C16 {kind} worker failed:\n{se[-3000:]}")
        res.extend(json.loads(out.read_text()))
    return res


def validate(spec, cfg, traces, *, scratch, parallel=12, min_chunk=100, env=None, timeout=1500):
    """Batch trace validation for SINGLE-EVENT traces (same convention as mbv.traces.validate, which
    re-runs every rejected trace alone to find the matched prefix -- not needed when a trace is one
    event, and far too slow when a defect rejects hundreds of traces)."""
    from concurrent.futures import ThreadPoolExecutor
    if not traces:
        return BatchResult([], 0, 0, 0.0)
    n = max(1, min(parallel, len(traces) // min_chunk or 1))
    size = (len(traces) + n - 1) // n
    chunks = [traces[i:i + size] for i in range(0, len(traces), size)]

    def one(ci):
        f = scratch / f"tr-{spec}-{ci}-{time.time_ns()}.json"
        f.write_text(json.dumps(chunks[ci]))
        e = dict(env or {})
        e.update(TRACE_FILE=str(f), MBV_PROGRESS="0")
        r = run_tlc(spec, cfg, scratch=scratch, workers=1, timeout=timeout, env=e, expect_fail=True)
        f.unlink(missing_ok=True)
        acc = {int(x) for x in re.findall(r'<<"ACCEPT", (\d+)>>', r.output)}
        return [TraceVerdict(str(t.get("id")), (k in acc), len(t["ev"]) if k in acc else 0, len(t["ev"]))
                for k, t in enumerate(chunks[ci], 1)], r
    verdicts, states, distinct, wall = [], 0, 0, 0.0
    with ThreadPoolExecutor(max_workers=len(chunks)) as ex:
        for vs, r in ex.map(one, range(len(chunks))):
            verdicts += vs
            states += r.generated
            distinct += r.distinct
            wall = max(wall, r.wall_s)
    return BatchResult(verdicts, states, distinct, wall)


def _tlc_expected(ctx, traces):
    """Ask TLC for Mail!Expected(m) of a few traces (diagnostics for the replay file only)."""
    f = ctx.scratch / f"exp-{len(traces)}-{time.time_ns()}.json"
    f.write_text(json.dumps(traces))
    cfg = "SPECIFICATION TraceSpec\nCONSTRAINT TraceAccept\nCONSTANTS Deviations = {}\n"
    try:
        r = run_tlc("MailTrace", cfg, scratch=ctx.scratch, workers=1,
                    env={"TRACE_FILE": str(f), "MBV_PROGRESS": "0", "MBV_EXPECT": "1"}, expect_fail=True)
    except MachineryError:
        return {}
    out = {}
    from ..tlaval import _P
    for mm in re.finditer(r'<<\s*"EXPECTED",', r.output):
        try:
            val = _P(r.output, mm.start()).value()
            out[int(val[1])] = _plain(val[2])
        except Exception:
            pass
    return out


def _diff_fields(exp, obs):
    """Names of the fields in which an observation differs from Mail!Expected (wording of the
    violation only; the verdict is TLC's).  Differences that a DON'T-CARE of Mail.tla may cover
    are listed only when nothing else differs."""
    if not exp or not isinstance(obs, dict):
        return ["?"]
    hard, soft = [], []
    if obs.get("joinok") is False:
        hard.append("joinok (C03 join law for e-mail: get_full_text() != trimmed newline-join of the unit texts)")
    want = [a["supp"] for a in obs.get("atts", []) if a["supp"][0] != "-"]
    if obs.get("suppall", want) != want:
        hard.append("suppall (one call of iterate_supported_attachments() on the whole message does not yield, in "
                    "order, the extractions of exactly the attachments that extract on their own)")
    for k in ("plainsep", "fullsep"):
        if not all(obs.get(k, [])):
            hard.append(f"{k} (texts of separate parts are fused: no white space between them)")
    for k in ("nunits", "utype"):
        if k in exp and exp[k] != obs.get(k):
            hard.append(f"{k} (C03 e-mail unit clause: every message has exactly one unit; 'empty' when it has no body)")
    if obs.get("utext") != obs.get("full"):
        hard.append("utext (the unit's text is not the body / full text)")
    if "full" in exp and exp["full"] != obs.get("full"):
        (soft if any(t[0] == "plainesc" for t in obs.get("full", [])) or len(obs.get("full", [])) > 1
         else hard).append("full (get_full_text() is not the body)")
    for k in ("subj", "from", "to", "cc", "bcc", "rt", "date", "mid", "irt", "plain", "html"):
        if exp.get(k) != obs.get(k):
            dc11 = k == "plain" and len(obs.get(k) or []) > 1 and (obs[k][:1] == exp[k] or obs[k][0][0] == "plainesc")
            dc4 = k == "plain" and any(t[0] == "plainesc" for t in obs.get(k) or [])
            (soft if dc11 or dc4 else hard).append(k)                                               # DC11 / DC4
    ea, oa = exp.get("atts", []), [a for a in obs.get("atts", []) if a["bytes"][0] != "inline"]     # DC6
    if len(ea) != len(oa):
        hard.append(f"atts(count {len(oa)} for {len(ea)})")
    else:
        for j, (e, o) in enumerate(zip(ea, oa), 1):
            for k in ("name", "type", "bytes", "sup", "supp"):
                if e[k] == o[k]:
                    continue
                if (k == "name" and e[k][0] == "-") or (k == "bytes" and o[k][0] == "bytesnl" and o[k][1:] == e[k][1:]):
                    soft.append(f"att{j}.{k}")                                                      # DC5 / DC8
                else:
                    hard.append(f"att{j}.{k}")
    return hard or soft or ["(see observation)"]


def run(ctx):
    ev, v = ctx.ev, ctx.v
    from concurrent.futures import ThreadPoolExecutor
    pool = ThreadPoolExecutor(max_workers=8)
    # ------------------------------------------------------------------ 1. + 2. TLC on the specifications
    maxlen = 6 if ctx.thorough else 5
    lmax = 5 if ctx.thorough else 4
    K = 2 if ctx.thorough else 1
    invs = "INVARIANT Inv_SplitIsDecl\nINVARIANT Inv_BoundariesOnlyAtSep\nINVARIANT Inv_InOrderNoLoss\n"
    dump, mdump = ctx.scratch / "mboxgen.dump", ctx.scratch / "mailgen.dump"
    gcfg = f"SPECIFICATION Spec\nCONSTANTS K = {K}\n Deviations = {{}}\nINVARIANT Inv_BodySelection\n"
    f_thm = pool.submit(run_tlc, "Mbox", f"SPECIFICATION Spec\nCONSTANTS MaxLen = {maxlen}\n Deviations = {{}}\n{invs}",
                        scratch=ctx.scratch, timeout=1500, heap="8g", workers=8)
    f_sens = {dev: pool.submit(run_tlc, "Mbox", f'SPECIFICATION Spec\nCONSTANTS MaxLen = 3\n Deviations = {{"{dev}"}}\n'
                               f'INVARIANT Inv_SplitIsDecl\n', scratch=ctx.scratch, expect_fail=True, workers=2)
              for dev in ("AnyFromLine", "NoAnchor")}
    # line-class sequences for the replay: the initial states of the same module
    f_gen = pool.submit(run_tlc, "Mbox", f"SPECIFICATION GenSpec\nCONSTANTS MaxLen = {lmax}\n Deviations = {{}}\n",
                        scratch=ctx.scratch, dump=dump, workers=2)
    f_mail = pool.submit(run_tlc, "MailGen", gcfg, scratch=ctx.scratch, dump=mdump, timeout=1500, workers=4)
    f_msens = {dev: pool.submit(run_tlc, "MailGen", gcfg.replace("{}", '{"%s"}' % dev).replace(f"K = {K}", "K = 1"),
                                scratch=ctx.scratch, expect_fail=True, workers=2)
               for dev in ("WalkNoAttachmentSkip", "WalkLastPlainWins")}

    rm = f_mail.result()
    ev.tlc(f"MailGen: abstract messages (cover K={K}) + body-selection theorem", rm)
    if rm.violated:
        v.violation(what=f"MailGen: {rm.violated} violated on the specification itself", observed=rm.trace[-1:])
    msgs = sorted((_plain(s["m"]) for s in iter_dump(mdump)), key=lambda m: json.dumps(m, sort_keys=True))
    if len(msgs) != rm.distinct:
        raise MachineryError(f"MailGen dump has {len(msgs)} states, TLC reported {rm.distinct}")
    rg = f_gen.result()
    ev.tlc(f"Mbox GenSpec: line-class sequences len <= {lmax} x fin for the replay", rg)
    seqs = sorted({(tuple(s["lines"]), bool(s["fin"])) for s in iter_dump(dump)})
    if len(seqs) != rg.distinct:
        raise MachineryError(f"Mbox dump has {len(seqs)} states, TLC reported {rg.distinct}")
    ctx.log(f"{len(msgs)} abstract messages, {len(seqs)} line-class sequences ({time.time() - ev.t0:.1f}s)")

    # ------------------------------------------------------------------ 3. replay (while the theorem runs finish)
    nvar = 5 if ctx.thorough else 1
    items = [{"id": f"{_case_id(m)}.{k}", "m": m} for m in msgs for k in range(nvar)]
    line_items = [{"lines": list(ls), "fin": fin, "eol": eol} for (ls, fin) in seqs for eol in ("LF", "CRLF")]
    t0 = time.time()
    f1 = pool.submit(_run_workers, ctx, "mail", items)
    f2 = pool.submit(_run_workers, ctx, "lines", line_items, None, 6)
    f3 = pool.submit(_run_workers, ctx, "fixtures", [list(f) for f in FIXTURES])
    mail_out, line_out, fix_out = f1.result(), f2.result(), f3.result()
    nfb = sum(1 for o in mail_out if o.get("fallback"))
    ctx.log(f"replay done in {time.time() - t0:.1f}s: {len(mail_out)} message cases ({nfb} written by hand because the "
            f"stdlib generator failed its self-test), {len(line_out)} mailboxes")

    r = f_thm.result()
    ev.tlc(f"Mbox: splitter model = declarative boundaries, all line-class sequences len <= {maxlen}", r)
    if r.violated:
        v.violation(what=f"Mbox.tla: {r.violated} violated on the specification itself", observed=r.trace[-1:])
    for dev, f in f_sens.items():
        rs = f.result()
        ev.tlc(f"Mbox sensitivity: deviation {dev} must break Inv_SplitIsDecl", rs, note="expected violation")
        if not rs.violated:
            raise MachineryError(f"Mbox sensitivity run ({dev}) did not fail: invariant vacuous")
    for dev, f in f_msens.items():
        rs = f.result()
        ev.tlc(f"MailGen sensitivity: deviation {dev} must break Inv_BodySelection", rs, note="expected violation")
        if not rs.violated:
            raise MachineryError(f"MailGen sensitivity run ({dev}) did not fail: Inv_BodySelection vacuous")

    # ------------------------------------------------------------------ 4b (started here, collected below)
    ltraces, lmeta = [], []
    for i, (it, o) in enumerate(zip(line_items, line_out)):
        for e in o["ev"]:
            ltraces.append({"id": f"L{i}:{e['a']}", "hdr": {"lines": it["lines"], "fin": it["fin"], "eol": it["eol"]}, "ev": [e]})
            lmeta.append((it, o, e))
    lcfg = "SPECIFICATION TraceSpec\nCONSTRAINT TraceAccept\nCONSTANTS MaxLen = 6\n Deviations = {}\n"
    f_brl = pool.submit(validate, "MboxTrace", lcfg, ltraces, scratch=ctx.scratch, parallel=6, min_chunk=300)

    # ------------------------------------------------------------------ 4a. validate messages
    traces, meta = [], []
    for it, o in zip(items, mail_out):
        for path, e in [("eml", o["eml"]), ("mbox", o["mbox"])] + [("mbox", e) for e in o.get("mbox_pos", [])]:
            traces.append({"id": f"{it['id']}:{path}", "hdr": {"m": it["m"], "kind": "msg"}, "ev": [e]})
            meta.append((it, path, e, o))
    for f, o in zip(FIXTURES, fix_out):
        traces.append({"id": f"fixture:{f[0]}", "hdr": {"m": "fixture", "kind": "fixture"}, "ev": o["ev"]})
        meta.append(({"id": f[0], "m": "fixture"}, "fixture", o["ev"], o))
    tcfg = "SPECIFICATION TraceSpec\nCONSTRAINT TraceAccept\nCONSTANTS Deviations = {}\n"
    br = validate("MailTrace", tcfg, traces, scratch=ctx.scratch, parallel=12, min_chunk=100, env={"MBV_EXPECT": "0"})
    ev.tlc_counts("MailTrace: observations of both parsers validated against Mail!Accept", br.distinct, br.states, br.wall_s)
    ctx.log(f"MailTrace validated {len(traces)} traces in {br.wall_s:.1f}s")
    rej = [i for i, tv in enumerate(br.verdicts) if not tv.accepted]
    v.ok(len(traces) - len(rej))
    ev.replayed(len(traces))
    if rej:
        # as-built model: only the deviation of the open finding switched on
        acfg = tcfg.replace("{}", '{"InventedTxtName"}')
        br2 = validate("MailTrace", acfg, [traces[i] for i in rej], scratch=ctx.scratch, parallel=8, min_chunk=50,
                       env={"MBV_EXPECT": "0"})
        ev.tlc_counts("MailTrace as-built (deviation InventedTxtName): rejected traces re-validated",
                      br2.distinct, br2.states, br2.wall_s)
        still = []
        for i, tv in zip(rej, br2.verdicts):
            it, path, e, o = meta[i]
            if tv.accepted:
                v.known(KF, f"{path}: file-name-less supported attachment routed by the invented .txt name "
                            f"(case {it['id']})", case={"m": it["m"]})
            else:
                still.append(i)
        groups = {}
        exp = _tlc_expected(ctx, [traces[i] for i in still[:2500]]) if still else {}
        for k, i in enumerate(still):
            it, path, e, o = meta[i]
            if path == "fixture":
                sig = ("fixture", it["id"])
                what = f"fixture {it['id']}: field-presence clause rejected: {e[0].get('p')}"
            elif e["a"] == "Raised":
                sig = (path, "raised", ":".join(e["exc"].split(":")[:2]))
                what = f"{path} extraction raised {e['exc']}"
            elif e["a"] == "Mbox" and e["nres"] != e["n"]:
                sig = (path, "count")
                what = f"mailbox of {e['n']} messages produced {e['nres']} results"
            else:
                d = _diff_fields(exp.get(k + 1), e.get("obs"))
                sig = (path, tuple(d))
                what = f"{path} extraction differs from the abstract message in: {', '.join(d)}"
            groups.setdefault(sig, []).append((i, what, exp.get(k + 1)))
        for sig, lst in sorted(groups.items(), key=lambda kv: str(kv[0])):
            i, what, ex = lst[0]
            it, path, e, o = meta[i]
            v.violation(what=f"{what}  [{len(lst)} cases; first: {it['id']}]",
                        case={"m": it["m"], "path": path, "eml_b64": o.get("eml_b64"), "others": [meta[j][0]["id"] for j, _, _ in lst[1:20]]},
                        expected=ex, observed=e.get("obs", e) if isinstance(e, dict) else e,
                        where="eml_email_extractor.py:_read_eml_format" if path == "eml" else
                              "mbox_email_extractor.py:parse_email_message/_split_mbox_messages" if path == "mbox" else
                              "msg_email_extractor.py:read_msg_format_mail")
    for it, o in zip(items, mail_out):
        m = it["m"]
        if m["subj"]["k"] not in ("none", "ascii") or m["att1"]["p"] or m["body"]["s"] != "plain" or len(m["to"]) > 1:
            ev.nontrivial(it["id"])
    for it, o in list(zip(items, mail_out))[:: max(1, len(items) // 5)]:
        ev.sample({"case": it["id"], "m": {k: it["m"][k] for k in ("subj", "from", "to", "date", "body", "att1", "ser")},
                   "eml_head": o.get("head", "")[:300], "eml_obs": o["eml"].get("obs", o["eml"]) if isinstance(o["eml"], dict) else None})

    # ------------------------------------------------------------------ 4b. validate mailboxes
    brl = f_brl.result()
    ev.tlc_counts("MboxTrace: split blocks and results of concretised line-class mailboxes validated", brl.distinct, brl.states, brl.wall_s)
    ctx.log(f"MboxTrace validated {len(ltraces)} traces in {brl.wall_s:.1f}s")
    ev.replayed(len(ltraces))
    lgroups = {}
    for (it, o, e), tv in zip(lmeta, brl.verdicts):
        if tv.accepted:
            v.ok(1)
            if "Sep" in it["lines"]:
                ev.nontrivial(("L", tuple(it["lines"]), it["fin"], it["eol"]))
            continue
        if e["a"] == "Split":
            sig, what = "split", f"_split_mbox_messages: blocks {e['split']} are not the messages of line classes {it['lines']}"
        elif e.get("exc"):
            sig, what = "read-raised:" + ":".join(e["exc"].split(":")[:2]), f"read_mbox_format_mail raised {e['exc']} on line classes {it['lines']}"
        else:
            sig, what = "read", f"read_mbox_format_mail: {e['n']} results showing lines {e['toks']} for line classes {it['lines']}"
        lgroups.setdefault(sig, []).append((it, o, what, e))
    for sig, lst in sorted(lgroups.items()):
        it, o, what, e = lst[0]
        v.violation(what=f"{what} (eol={it['eol']}, fin={it['fin']})  [{len(lst)} mailboxes]",
                    case={"lines": it["lines"], "fin": it["fin"], "eol": it["eol"], "mbox_b64": o["b64"]},
                    observed=e, where="mbox_email_extractor.py:MBOX_FROM_PATTERN/_split_mbox_messages/read_mbox_format_mail")
    ev.sample({"mailbox": line_items[len(line_items) // 2], "obs": line_out[len(line_items) // 2]["ev"]})
    ev.set(rule="abstract messages enumerated by TLC (MailGen cover), each concretised x variants and parsed as .eml "
                "and inside a mailbox.mbox-written mbox; line-class sequences enumerated by TLC (Mbox GenSpec) x LF/CRLF; "
                "non-trivial = message with a non-ascii subject, an attachment, a multipart body or > 1 recipient / "
                "mailbox with at least one separator line",
           exhaustive=False,
           constants={"K": K, "messages": len(msgs), "variants": nvar, "Mbox.MaxLen(theorem)": maxlen,
                      "Mbox.MaxLen(replay)": lmax, "line_mailboxes": len(line_items),
                      "writer_self_test_fallbacks": nfb})
    ev.assume("the Python standard library's email generator / mailbox.mbox writer produce conforming messages (writer = trusted base)",
              "date: only the instant is compared; header white space at fold points SP/HTAB; bodies modulo strip() and CRLF/LF "
              "(DC1-DC3 of Mail.tla, applied in the projection)",
              ".msg: no writer exists; the two fixtures are traced against the field-presence clause only",
              "message universe is a cover (one dimension at a time; pairwise in the thorough tier), not the full product")


# =========================================================================== workers
def _exc(e) -> str:
    c = e.__cause__ or e
    return f"{type(e).__name__}: {type(c).__name__}: {str(c)[:120]}"


def _worker_mail(job, wd):
    from ..repo import need
    from .. import c16_mailgen as g
    eml = need("sharepoint2text.parsing.extractors.mail.eml_email_extractor", "read_eml_format_mail")
    mbx = need("sharepoint2text.parsing.extractors.mail.mbox_email_extractor", "read_mbox_format_mail")
    router = need("sharepoint2text.parsing.router", "get_extractor")
    fixture = (REPO / FIX_DOCX).read_bytes()
    direct_cache = {}

    def full_text(ext, data):
        key = (ext, hashlib.sha256(data).digest())
        if key not in direct_cache:
            try:
                rs = list(router.get_extractor("direct." + ext)(io.BytesIO(data), None))
                # "the attached file on its own": result type and full text
                # (an archive yields one result per member)
                direct_cache[key] = [(type(r).__name__, r.get_full_text()) for r in rs] or None
            except Exception:
                direct_cache[key] = None
        return direct_cache[key]

    def supp_fn(c, idx, bt):
        """(token, result list) of iterate_supported_attachments() on a copy holding only attachment idx."""
        one = copy.copy(c)
        one.attachments = [c.attachments[idx]]
        try:
            rs = list(one.iterate_supported_attachments())
        except Exception:
            return ["exc", "?", 0], []
        if not rs:
            return g.ABSENT, []
        ft = [(type(r).__name__, r.get_full_text()) for r in rs]
        if bt[0] not in ("bytes", "bytesnl"):
            return g.UNKNOWN, ft
        data = c.attachments[idx].data.getvalue()
        pl, j = bt[1], bt[2]
        if ft == full_text(g.EXT[pl] if pl != "bin" else "txt", data):
            return ["ft", pl, j], ft
        if ft == full_text("txt", data):
            return ["ftastxt", pl, j], ft
        return g.UNKNOWN, ft

    out = []
    cases = []
    for it in job["items"]:
        rng = random.Random(f"{job['seed']}:{it['id']}")
        case = g.Case(it["m"], rng, fixture_docx=fixture, tag=it["id"])
        b = case.to_bytes()
        cases.append((it, case, b))
        try:
            rs = list(eml.read_eml_format_mail(io.BytesIO(b)))
            if len(rs) != 1:
                e = {"a": "Raised", "exc": f"Count: {len(rs)} results for one .eml"}
            else:
                e = {"a": "Eml", "obs": case.project(rs[0], supp_fn)}
        except Exception as ex:
            e = {"a": "Raised", "exc": _exc(ex)}
        out.append({"eml": e, "mbox": None, "head": b[:400].decode("latin-1"), "fallback": case.writer_fallback,
                    "eml_b64": base64.b64encode(b).decode() if len(b) < 20000 else None})
    # mailboxes: consecutive cases, 1..5 messages each, eol mode cycling
    rngm = random.Random(f"{job['seed']}:mbox:{job['w']}")
    k = 0
    nb = 0
    while k < len(cases):
        n = rngm.randint(1, 5)
        grp = list(range(k, min(len(cases), k + n)))
        k += n
        nb += 1
        eol = ("asis", "lf", "crlf", "lf-noblank", "crlf-noblank", "lf-nofinal", "crlf-noblank-nofinal")[nb % 7]

        def read(idx_list, tag):
            data = g.write_mbox(Path(wd) / f"mb-{tag}.mbox", [cases[i][2] for i in idx_list], eol, rngm)
            return list(mbx.read_mbox_format_mail(io.BytesIO(data)))
        try:
            rs = read(grp, nb)
            for pos, i in enumerate(grp, 1):
                obs = cases[i][1].project(rs[pos - 1], supp_fn) if len(rs) == len(grp) else "none"
                out[i]["mbox"] = {"a": "Mbox", "n": len(grp), "nres": len(rs), "pos": pos, "obs": obs, "eol": eol}
        except Exception:
            # the whole mailbox failed: find the message(s) responsible, one mailbox per message
            for i in grp:
                try:
                    rs = read([i], f"{nb}-{i}")
                    obs = cases[i][1].project(rs[0], supp_fn) if len(rs) == 1 else "none"
                    out[i]["mbox"] = {"a": "Mbox", "n": 1, "nres": len(rs), "pos": 1, "obs": obs, "eol": eol}
                except Exception as ex:
                    out[i]["mbox"] = {"a": "Raised", "exc": _exc(ex), "eol": eol}
    # a message without any body at the first / middle / last position of a three-message mailbox
    for i, (it, case, b) in enumerate(cases):
        out[i]["mbox_pos"] = []
        if it["m"]["body"]["s"] != "nobody":
            continue
        others = [j for j in range(len(cases)) if cases[j][0]["m"]["body"]["s"] != "nobody"][:2]
        if len(others) < 2:
            continue
        for pos in (0, 1, 2):
            order = others[:]
            order.insert(pos, i)
            eol = ("lf", "crlf", "lf-noblank")[pos]
            try:
                data = g.write_mbox(Path(wd) / f"mbp-{i}-{pos}.mbox", [cases[j][2] for j in order], eol, rngm)
                rs = list(mbx.read_mbox_format_mail(io.BytesIO(data)))
                obs = case.project(rs[pos], supp_fn) if len(rs) == 3 else "none"
                out[i]["mbox_pos"].append({"a": "Mbox", "n": 3, "nres": len(rs), "pos": pos + 1, "obs": obs, "eol": eol})
            except Exception as ex:
                out[i]["mbox_pos"].append({"a": "Raised", "exc": _exc(ex), "eol": eol})
    return out


def _worker_lines(job, wd):
    from ..repo import need
    from .. import c16_mailgen as g
    mbx = need("sharepoint2text.parsing.extractors.mail.mbox_email_extractor", "read_mbox_format_mail",
               "_split_mbox_messages", "MBOX_FROM_PATTERN")
    out = []
    for k, it in enumerate(job["items"]):
        rng = random.Random(f"{job['seed']}:{job['w']}:{k}")
        data = g.concretise_lines(it["lines"], it["fin"], it["eol"], rng)
        evs = []
        try:
            blocks = mbx._split_mbox_messages(data)
            evs.append({"a": "Split", "split": g.project_split(data, blocks, it["eol"])})
        except Exception as ex:
            evs.append({"a": "Split", "split": [[-1]], "exc": _exc(ex)})
        try:
            rs = list(mbx.read_mbox_format_mail(io.BytesIO(data)))
            evs.append({"a": "Read", "n": len(rs),
                        "toks": [g.project_tokens(r.subject, r.body_plain, r.body_html) for r in rs],
                        "units": [len(list(r.iterate_units())) for r in rs]})
        except Exception as ex:
            evs.append({"a": "Read", "n": -1, "toks": [], "units": [], "exc": _exc(ex)})
        out.append({"ev": evs, "b64": base64.b64encode(data).decode()})
    return out


def _worker_fixtures(job, wd):
    import datetime as dt
    from ..repo import need
    mods = {"eml": need("sharepoint2text.parsing.extractors.mail.eml_email_extractor", "read_eml_format_mail").read_eml_format_mail,
            "mbox": need("sharepoint2text.parsing.extractors.mail.mbox_email_extractor", "read_mbox_format_mail").read_mbox_format_mail,
            "msg": need("sharepoint2text.parsing.extractors.mail.msg_email_extractor", "read_msg_format_mail").read_msg_format_mail}
    res_dir = REPO / "sharepoint2text/tests/resources/mails"

    def atts_of(c):
        return [(a.filename, a.mime_type, hashlib.sha256(a.data.getvalue()).hexdigest()) for a in c.attachments]
    out = []
    for name, kind, expnatt, twin in job["items"]:
        evs = []
        try:
            rs = list(mods[kind](io.BytesIO((res_dir / name).read_bytes()), path=str(res_dir / name)))
            twin_atts = None
            if twin:
                twin_atts = atts_of(list(mods["eml"](io.BytesIO((res_dir / twin).read_bytes())))[0])
            for c in rs:
                try:
                    d = dt.datetime.fromisoformat(c.metadata.date)
                    date_ok = d.tzinfo is not None
                except Exception:
                    date_ok = False
                attok = all(a.filename and a.mime_type and len(a.data.getvalue()) > 0 and a.data.tell() == 0
                            for a in c.attachments)
                nsup = sum(1 for a in c.attachments if a.is_supported_mime_type)
                if attok and nsup:
                    sup = list(c.iterate_supported_attachments())
                    attok = len(sup) == nsup and all(s.get_full_text().strip() for s in sup)
                evs.append({"a": "Fixture", "p": {
                    "subj": bool(c.subject), "fromaddr": bool(c.from_email.address or c.from_email.name),
                    "date": date_ok, "mid": bool(re.fullmatch(r"<[^<>\s]+@[^<>\s]+>", c.metadata.message_id or "")),
                    "body": bool(c.body_plain or c.body_html), "natt": len(c.attachments), "expnatt": expnatt,
                    "attok": bool(attok),
                    "joinok": bool(c.get_full_text() == "\n".join(u.get_text() for u in c.iterate_units()).strip()),
                    "twin": (twin_atts is None) or atts_of(c) == twin_atts}})
        except Exception as ex:
            evs.append({"a": "Raised", "exc": _exc(ex)})
        out.append({"ev": evs})
    return out


if __name__ == "__main__":
    if sys.argv[1] == "worker":
        kind, inp, outp, wd = sys.argv[2:6]
        job = json.loads(Path(inp).read_text())
        res = {"mail": _worker_mail, "lines": _worker_lines, "fixtures": _worker_fixtures}[kind](job, wd)
        Path(outp).write_text(json.dumps(res))
