"""C09 -- archive processing is confined.  Spec: specs/Archive.tla (+ ArchiveGen, ArchiveTrace).

1. TLC proves Inv_Confined / Inv_Cleanup / Inv_SkipRules / Inv_Closed (+ the member invariants) on the
   reference design for all (format x member list x consumer history) cases of the bounded universe;
   sensitivity runs: each named deviation (7z re-read without containment check, temp dir not tied to
   the generator frame, tar extraction to the working directory, hidden rule dropped) has a counterexample.
2. ArchiveGen: TLC enumerates the cases; each is concretised (member names of the hostile grammar,
   canary host files at every host path a name designates, tar link / device members, 7z entries with
   and without data stream) and run in sandboxed worker processes (own TMPDIR, audit hook armed after a
   warm-up, consumer history executed literally on the generator).
3. ArchiveTrace: TLC validates every recorded trace (effects classified InsideTmp / TmpRootItself /
   Outside, results with member index / labels / digest id / canary flag, final listing) against the
   invariants of Archive.tla.
"""
from __future__ import annotations

import json
import random
import time
import subprocess
from concurrent.futures import ThreadPoolExecutor
from pathlib import Path

from .. import PY, VERIF
from ..c09_lib import pack_params
from ..repo import child_env
from ..tlaval import iter_dump
from ..tlc import MachineryError, run_tlc
from ..traces import validate

BASE = ('CONSTANTS Fmts = {"zip", "tar", "7z"}\n MemberTypes <- %s\n MaxMembers = %d\n MaxK = %d\n'
        ' Deviations = {%s}\n')
INVS = ("INVARIANT Inv_Confined\nINVARIANT Inv_Cleanup\nINVARIANT Inv_SkipRules\nINVARIANT Inv_Closed\n"
        "INVARIANT Inv_Members\nINVARIANT Inv_OwnContent\nINVARIANT Inv_Isolation\nINVARIANT TypeOK\n")
TRACE_CFG = ('SPECIFICATION TraceSpec\nCONSTRAINT TraceAccept\nCONSTANTS Fmts = {"zip"}\n MemberTypes <- MT_C10\n'
             ' MaxMembers = 0\n MaxK = 0\n Deviations = {}\n Mode = "%s"\n')
SENS = {"RereadUnchecked": "Inv_Confined / Inv_Closed", "NoCleanupOnEarlyExit": "Inv_Cleanup",
        "BackslashAfterCheck": "Inv_Confined", "FollowHardlinks": "Inv_SkipRules", "ReadByName": "Inv_SkipRules / Inv_OwnContent", "ExtractToCwd": "Inv_Confined", "YieldHidden": "Inv_SkipRules"}


def dump_cases(ctx, universe, max_members, max_k, name):
    dump = ctx.scratch / f"{name}.dump"
    cfg = "SPECIFICATION GenSpec\n" + BASE % (universe, max_members, max_k, "")
    r = run_tlc("ArchiveGen", cfg, scratch=ctx.scratch, dump=dump, heap="6g", timeout=900)
    f = dump if dump.exists() else Path(str(dump) + ".dump")
    cases = []
    for s in iter_dump(f):
        cases.append({"fmt": s["fmt"], "members": [{"kind": m["kind"], "nc": m["nc"]} for m in s["ms"]],
                      "hist": {"t": s["hist"]["t"], "k": s["hist"]["k"]}})
    if len(cases) != r.distinct:
        raise MachineryError(f"ArchiveGen dump has {len(cases)} states, TLC reported {r.distinct}")
    cases.sort(key=lambda c: json.dumps(c, sort_keys=True))
    return r, cases


def run_workers(ctx, cases, audit, tag, nworkers=12, limit=None):
    """cases already carry id / n / seed / variants.  Returns traces in case order."""
    if not cases:
        return []
    nworkers = max(1, min(nworkers, len(cases) // 20 or 1))
    procs = []
    for w in range(nworkers):
        part = cases[w::nworkers]
        jf, of = ctx.scratch / f"{tag}-job{w}.json", ctx.scratch / f"{tag}-out{w}.json"
        job = {"wroot": str(ctx.scratch / f"{tag}-w{w}"), "cases": part, "audit": audit}
        if limit is not None:
            job["limit"] = limit
        jf.write_text(json.dumps(job))
        procs.append((of, subprocess.Popen([PY, "-m", "mbv.c09_lib", str(jf), str(of)], env=child_env(),
                                           cwd=str(VERIF), stdout=subprocess.PIPE, stderr=subprocess.PIPE, text=True)))
    traces = []
    for of, p in procs:
        so, se = p.communicate(timeout=3000)
        if p.returncode != 0:
            raise MachineryError(f"archive worker failed (rc={p.returncode}):\n{se[-2500:]}")
        traces.extend(json.loads(of.read_text()))
    order = {c["id"]: i for i, c in enumerate(cases)}
    traces.sort(key=lambda t: (order[t["id"].rsplit("/", 1)[0]], int(t["id"].rsplit("/", 1)[1])))
    for t in traces:
        if t["dbg"]["err"]:
            raise MachineryError(f"observation failed in case {t['id']}: {t['dbg']['err']}")
    return traces


def describe(t, reached, confine=False):
    """Message only: what the first rejected event was (TLC has decided already)."""
    ev = t["ev"]
    e = ev[reached] if 0 <= reached < len(ev) else None
    names = t["dbg"]["names"]
    head = (f"{t['hdr']['fmt']} archive {t['hdr']['apath']} members="
            f"{[(m['kind'], m['nc']) for m in t['hdr']['members']]} names={names} consumer={t['hdr']['hist']}: ")
    if e is None:
        outs = [x for x in ev if x["a"] == "Fs" and x["cls"] == "Outside"]
        return head + ("effect outside the private temp dir " + str(t["dbg"]["outside"]) if outs else
                       "trace rejected by ArchiveTrace (prefix not diagnosed)")
    if e["a"] == "Fs":
        return head + f"file-system effect {e['op']} on a path classified {e['cls']} {t['dbg']['outside']}"
    if e["a"] in ("CNext", "CThrow") and e["out"] == "item":
        if e["canary"]:
            return head + f"result {e['path']!r} contains the content of a host file (canary token)"
        bad = [j for j in e.get("own", []) if t["hdr"]["members"][j - 1]["kind"] not in ("doc", "emptyFile", "corrupt")]
        if bad:
            return head + (f"result {e['path']!r} carries the content (token words) of member(s) {bad} "
                           f"{[(t['hdr']['members'][j - 1]['kind'], names[j - 1]) for j in bad]}, which must never produce results")
        if e["m"] == 0:
            return head + f"result labelled {e['path']!r} / {e['fn']!r} does not carry the path of any member"
        m = t["hdr"]["members"][e["m"] - 1]
        if confine:
            return head + (f"member {e['m']} ({m['kind']}, {m['nc']}) produced the result {e['path']!r} although members "
                           f"of that kind must never produce results")
        return head + (f"result for member {e['m']} ({m['kind']}, {m['nc']}) filename={e['fn']!r} path={e['path']!r} "
                       f"digest-id={e['dg']} is not what the specification allows here (skip rule, order, "
                       f"duplicate, label or content differs from direct extraction {m['direct']})")
    if confine and e["a"] in ("CNext", "CThrow") and e["out"] in ("stop", "raise"):
        return head + (f"the generator finished ({e['out']} {e['exc']}) but the temporary directory was not removed "
                       f"(no rmtree of the private directory before the generator ended; left={t['dbg']['left']})")
    if e["a"] in ("CNext", "CThrow") and e["out"] == "stop":
        return head + "generator ended although a member that must come out is missing"
    if e["a"] in ("CNext", "CThrow") and e["out"] == "raise":
        return head + f"archive failed as a whole ({e['exc']}) although no member permits that; or temp dir left behind"
    if e["a"] in ("CClose", "CDrop"):
        return head + f"temporary directory still present after {e['a']} (left={t['dbg']['left']})"
    if e["a"] == "Final":
        return head + f"after the history: entries left under TMPDIR={e['left']} {t['dbg']['left']}, host files changed={e['hostchg']}"
    return head + f"event {e} rejected"


SEQ_CONST = 'CONSTANTS Fmts = {"zip", "tar", "7z"}\n MaxEntries = %d\n MaxSeq = %d\n Deviations = {%s}\n'


def history_part(ctx, pool):
    """Results are a function of the archive bytes only: sequences of archives in one interpreter
    (forked child of an import-only zygote) vs every archive alone (ArchiveSeq / ArchiveSeqTrace)."""
    ev, v = ctx.ev, ctx.v
    me = 3 if ctx.thorough else 2
    jobs = [("ArchiveSeq: reference design, all sequences of <= 2 archives: Inv_HistoryIndependent", None,
             pool.submit(run_tlc, "ArchiveSeq", "SPECIFICATION Spec\n" + SEQ_CONST % (me, 2, "")
                         + "INVARIANT Inv_HistoryIndependent\n", scratch=ctx.scratch, timeout=900, workers=4)),
            ("ArchiveSeq sensitivity: deviation SharedEmptyIndices must violate Inv_HistoryIndependent", "SharedEmptyIndices",
             pool.submit(run_tlc, "ArchiveSeq", "SPECIFICATION Spec\n" + SEQ_CONST % (2, 2, '"SharedEmptyIndices"')
                         + "INVARIANT Inv_HistoryIndependent\n", scratch=ctx.scratch, expect_fail=True, timeout=900, workers=4))]
    dump = ctx.scratch / "seqgen.dump"
    rg = run_tlc("ArchiveSeq", "SPECIFICATION GenSpec\n" + SEQ_CONST % (me, 2, ""), scratch=ctx.scratch, dump=dump, heap="6g")
    f = dump if dump.exists() else Path(str(dump) + ".dump")
    seqs = [[{"fmt": a["fmt"], "kinds": list(a["kinds"])} for a in st["seq"]] for st in iter_dump(f)]
    if len(seqs) != rg.distinct:
        raise MachineryError(f"ArchiveSeq dump has {len(seqs)} states, TLC reported {rg.distinct}")
    ev.tlc("ArchiveSeq (Gen): sequences of archives", rg)
    seqs.sort(key=lambda q: json.dumps(q, sort_keys=True))
    rng = random.Random(ctx.seed * 2654435761 % (1 << 31) + 17)
    if ctx.thorough:        # all same-format pairs + a seeded third of the mixed ones
        seqs = [q for q in seqs if len(q) < 2 or q[0]["fmt"] == q[1]["fmt"] or rng.random() < 0.34]
    for _ in range(300 if ctx.thorough else 60):        # longer random sequences (3..5 archives, mostly 7z)
        q = []
        for _ in range(rng.randint(3, 5)):
            fmt = rng.choice(["7z", "7z", "7z", "zip", "tar"])
            kinds = [rng.choice(["doc", "doc", "emptyFile", "dir"] + (["anti"] if fmt == "7z" else []))
                     for _ in range(rng.randint(1, 4))]
            q.append({"fmt": fmt, "kinds": kinds})
        seqs.append(q)
    jobsq = [{"id": f"s{n}", "seq": q} for n, q in enumerate(seqs, start=1)]
    nw = 12
    procs = []
    for w in range(nw):
        jf, of = ctx.scratch / f"seq-job{w}.json", ctx.scratch / f"seq-out{w}.json"
        jf.write_text(json.dumps({"wroot": str(ctx.scratch / f"seq-w{w}"), "seed": ctx.seed, "seqs": jobsq[w::nw]}))
        procs.append((of, subprocess.Popen([PY, "-m", "mbv.c09_seq", str(jf), str(of)], env=child_env(), cwd=str(VERIF),
                                           stdout=subprocess.PIPE, stderr=subprocess.PIPE, text=True)))
    traces = []
    for of, p in procs:
        so, se = p.communicate(timeout=3000)
        if p.returncode != 0:
            raise MachineryError(f"history worker failed (rc={p.returncode}):\n{se[-2500:]}")
        traces.extend(json.loads(of.read_text()))
    traces.sort(key=lambda t: int(t["id"][1:]))
    br = validate("ArchiveSeqTrace", "SPECIFICATION TraceSpec\nCONSTRAINT TraceAccept\n" + SEQ_CONST % (1, 1, ""), traces,
                  scratch=ctx.scratch, parallel=8, min_chunk=300, timeout=1200)
    ev.tlc_counts("ArchiveSeqTrace: sequence runs vs isolated runs", br.distinct, br.states, br.wall_s)
    for t, tv in zip(traces, br.verdicts):
        if tv.accepted:
            v.ok(1)
            if len(t["hdr"]["seq"]) > 1:
                ev.nontrivial(("seq", json.dumps([(a["fmt"], a["kinds"]) for a in t["hdr"]["seq"]])))
            continue
        k = max(tv.reached, 0)
        sq = [(a["fmt"], a["kinds"]) for a in t["hdr"]["seq"]]
        v.violation(what=(f"history dependence: the sequence of archives {sq} was processed by one interpreter; archive "
                          f"#{k + 1} {sq[min(k, len(sq) - 1)]} yielded results that differ from the results of the same bytes "
                          f"processed alone in a fresh process (state of the reader survived from an earlier archive)"),
                    case=t["hdr"], observed=t["ev"], where="sevenzip.py:SevenZipReader / archive_extractor.py module state")
    ev.replayed(len(traces))
    ev.sample({"sequence": [(a["fmt"], a["kinds"]) for a in traces[len(traces) // 2]["hdr"]["seq"]],
               "events": traces[len(traces) // 2]["ev"]})
    return jobs, len(traces)


def run(ctx):
    ev, v = ctx.ev, ctx.v
    thorough = ctx.thorough
    # ---- 1. theorem + sensitivity (TLC runs in the background while the cases are replayed; joined below)
    uni, mm, mk = ("MT_C09", 2, 2)
    pool = ThreadPoolExecutor(max_workers=3)
    jobs = [(f"Archive: reference design, {uni} lists <= {mm}, histories k <= {mk}: all invariants", None,
             pool.submit(run_tlc, "Archive", "SPECIFICATION Spec\n" + BASE % (uni, mm, mk, "") + INVS,
                         scratch=ctx.scratch, timeout=1500, workers=4))]
    if thorough:
        jobs.append(("Archive: reference design, MT_C09s lists <= 3, histories k <= 1: all invariants", None,
                     pool.submit(run_tlc, "Archive", "SPECIFICATION Spec\n" + BASE % ("MT_C09s", 3, 1, "") + INVS,
                                 scratch=ctx.scratch, timeout=2400, heap="8g", workers=4)))
    for d in (SENS if thorough else ["RereadUnchecked", "NoCleanupOnEarlyExit", "FollowHardlinks"]):
        jobs.append((f"Archive sensitivity: deviation {d} must violate {SENS[d]}", d,
                     pool.submit(run_tlc, "Archive", "SPECIFICATION Spec\n" + BASE % (uni, mm, mk, f'"{d}"') + INVS,
                                 scratch=ctx.scratch, expect_fail=True, timeout=900, workers=4)))
    # ---- 2. enumerate cases, run them
    if thorough:
        rg, cases = dump_cases(ctx, "MT_C09s", 3, 1, "c09gen")
        rg2, cases2 = dump_cases(ctx, "MT_C09", 2, 2, "c09gen2")
        ev.tlc("ArchiveGen: cases MT_C09 lists <= 2", rg2)
        seen = {json.dumps(c, sort_keys=True) for c in cases}
        cases += [c for c in cases2 if json.dumps(c, sort_keys=True) not in seen]
    else:
        rg, cases = dump_cases(ctx, "MT_C09", 2, 2, "c09gen")
    ev.tlc("ArchiveGen: cases (format x members x consumer history)", rg)
    rng = random.Random(ctx.seed * 7919 + 11)
    for n, c in enumerate(cases, start=1):
        c.update(id=f"c{n}", n=n, seed=rng.randrange(1 << 30), rich=False)
        if c["fmt"] == "zip":
            c["variants"] = [{"method": rng.choice(["stored", "deflated"]), "pack": pack_params("zip", "", rng)}]
        elif c["fmt"] == "tar":
            # DON'T-CARE: a plain tar without members is 10240 NUL bytes, no magic to detect
            comp = rng.choice(["", "", "gz", "bz2", "xz"] if c["members"] else ["gz", "bz2", "xz"])
            c["variants"] = [{"comp": comp, "pack": pack_params("tar", comp, rng)}]
        else:
            c["variants"] = [{"coder": rng.choice(["copy", "lzma", "lzma2", "mixed"]),
                              "layout": rng.choice(["solid", "perfile", "mixed"]), "enc": rng.random() < 0.4}]
    ctx.log(f"{len(cases)} cases enumerated by TLC")
    t0 = time.time()
    big = [c for c in cases if any(m["kind"] == "oversize" for m in c["members"])]
    big = [dict(c, id="big" + c["id"], n=10_000_000 + c["n"]) for c in big if len(c["members"]) == 1][: 12 if thorough else 3]
    traces = run_workers(ctx, cases, True, "c09")
    traces += run_workers(ctx, big, True, "c09big", nworkers=3, limit=0)       # the default 10 MB limit
    ctx.log(f"workers done in {time.time() - t0:.1f}s, {len(traces)} traces")
    jobs2, n_seq = history_part(ctx, pool)
    for name, d, fut in jobs + jobs2:              # join the TLC theorem / sensitivity runs
        r = fut.result()
        ev.tlc(name, r, note="expected violation" if d else "")
        if d and not r.violated:
            raise MachineryError(f"sensitivity run with deviation {d} did not fail: invariant vacuous")
        if not d and r.violated:
            v.violation(what=f"Archive.tla: {r.violated} violated on the reference design", observed=r.trace[-2:])
    pool.shutdown()
    dbg = [t.pop("dbg") for t in traces]
    br = validate("ArchiveTrace", TRACE_CFG % "confine", traces, scratch=ctx.scratch, parallel=12, min_chunk=300,
                  timeout=1800)
    ev.tlc_counts("ArchiveTrace: recorded histories validated against the invariants", br.distinct, br.states, br.wall_s)
    n_fs = 0
    for t, d, tv in zip(traces, dbg, br.verdicts):
        t["dbg"] = d
        fsn = sum(1 for e in t["ev"] if e["a"] == "Fs")
        n_fs += fsn
        if tv.accepted:
            v.ok(1)
            hostile = any(m["nc"] not in ("plain", "nested", "unicode", "dotslash") or m["kind"] not in ("doc", "dir")
                          for m in t["hdr"]["members"])
            if hostile or t["hdr"]["hist"]["t"] != "Exhaust":
                ev.nontrivial((t["hdr"]["fmt"], tuple((m["kind"], m["nc"]) for m in t["hdr"]["members"]),
                               t["hdr"]["hist"]["t"], t["hdr"]["hist"]["k"]))
        else:
            v.violation(what=describe(t, tv.reached, confine=True), case={"hdr": t["hdr"], "variant": d["variant"], "names": d["names"]},
                        observed=t["ev"][:40], where="archive_extractor.py:read_archive / sevenzip.py:extractall")
    ev.replayed(len(traces))
    for t in traces[:: max(1, len(traces) // 6)]:
        ev.sample({"fmt": t["hdr"]["fmt"], "members": [(m["kind"], m["nc"]) for m in t["hdr"]["members"]],
                   "names": t["dbg"]["names"], "history": t["hdr"]["hist"],
                   "events": [{k: x[k] for k in x if x[k] not in ("", 0)} for x in t["ev"]][:14]})
    ev.set(rule="cases = initial states of ArchiveGen (format x member list over [kind, name class] x consumer "
                "history), every case concretised and run; non-trivial = hostile name / special kind / early "
                "close, abandon or throw", exhaustive=True,
           constants={"universe": "MT_C09 lists<=2, k<=2" + (" + MT_C09s lists<=3, k<=1" if thorough else ""), "cases": len(cases),
                      "default_limit_cases": len(big), "fs_effects_recorded": n_fs, "archive_sequences": n_seq})
    ev.assume("POSIX host (backslash and drive-letter names are ordinary file names)",
              "effects are observed through sys.addaudithook (open, os.mkdir/remove/rmdir/rename/symlink/link/scandir/"
              "listdir/chmod..., shutil.*, tempfile.*); os.stat-class calls raise no audit event and are not effects",
              "read-only opens below the interpreter / site-packages / repository directories are the runtime "
              "loading itself and are not counted",
              "shutil.rmtree(path) is one effect classified by its argument",
              "oversize members use configure_archive_extraction(max_memory_size=150000); a few cases keep the 10 MB default")
