"""MANIFEST.setup_cmd: offline self-check of the tooling (java/TLC present, every spec parses)."""
import shutil
import subprocess
import sys
from concurrent.futures import ThreadPoolExecutor

from . import SCRATCH_ROOT, SPECS
from .tlc import MachineryError, sany


def main():
    if not shutil.which("java"):
        print("java missing", file=sys.stderr)
        return 2
    SCRATCH_ROOT.mkdir(exist_ok=True)
    specs = sorted(SPECS.glob("*.tla"))
    bad = []

    def one(p):
        try:
            sany(p)
        except MachineryError as e:
            bad.append(str(e))
    with ThreadPoolExecutor(8) as ex:
        list(ex.map(one, specs))
    for junk in SPECS.glob("*.toolbox"):
        shutil.rmtree(junk, ignore_errors=True)
    if bad:
        print("\n".join(bad), file=sys.stderr)
        return 2
    print(f"setup ok: {len(specs)} TLA+ modules parse")
    return 0


if __name__ == "__main__":
    sys.exit(main())
