#!/bin/bash
# Run every registered check (quick by default) against /repo and print one summary line each.
cd /verif
TIER=${1:-quick}
for c in $(/venv/bin/python -c "import json;print(' '.join(x['property_id'] for x in json.load(open('MANIFEST.json'))['checks']))"); do
  S=$(date +%s)
  ./check $c --tier $TIER > /tmp/runall-$c.log 2>&1; RC=$?
  echo "$c rc=$RC $(( $(date +%s) - S ))s  $(grep -c '^VIOLATION' /tmp/runall-$c.log) violations, $(grep -c '^KNOWN-FINDING' /tmp/runall-$c.log) known-finding lines"
done
