"""C15: generated documents for the history / stress workloads (no fixture of the repo has them).

* font PDFs: a Type0 / Identity-H font with an embedded (minimal, hand-built) TrueType program whose
  ToUnicode CMap maps some codes to U+0000.  pdf_extractor's wrapper around pypdf's build_char_map
  (_patch_font_digit_map) recognises such glyphs as digits by their bounding boxes.  The text of the
  page is  <label><one char per glyph id 1..4>: the glyph ids of the document's set are null-mapped, the
  others are mapped to a letter, so the projections "which null-mapped glyph ids were resolved to a digit"
  and "which properly mapped glyphs were overwritten" can be read off the extracted text.  Results of these documents depend
  on the patch being in place (concurrency) and on _FONT_CACHE (history).
* failing PDFs: garbage (fails before the patch section) and a page whose font resource is not a
  font so that page.extract_text raises inside the patch section (both attempts).
* AES PDFs: written with pypdf itself in a throw-away subprocess (the writer needs the library's
  AES fallback patch, which must not contaminate the process under test).  The patch trigger is an
  AES-256 document of revision 5 (PdfReader() already needs AES for the key); revision 6 triggers it too,
  but its password hash costs ~4 s of pure-Python AES per open.
"""
from __future__ import annotations

import struct
import subprocess
from pathlib import Path

from . import PY
from .repo import child_env
from .tlc import MachineryError

# glyph id -> bounding box (font units, 2048/em) close to pdf_extractor._REFERENCE_DIGIT_FEATURES
GLYPH_BOXES = [(10, 10), (540, 1472), (949, 1447), (1014, 1466), (971, 1472), (956, 1497), (972, 1471)]
FONTS = {"f": GLYPH_BOXES, "g": [(10, 10), (960, 1498), (968, 1497), (966, 1497), (964, 1497), (540, 1472), (949, 1447)]}


def make_ttf(dims) -> bytes:
    """minimal TrueType: head, maxp, loca (long), glyf; one 12-byte glyph header per glyph"""
    glyf = b""
    offs = [0]
    for (w, h) in dims:
        glyf += struct.pack(">hhhhh", 1, 0, 0, w, h) + b"\0\0"
        offs.append(len(glyf))
    loca = b"".join(struct.pack(">I", o) for o in offs)
    head = bytearray(54)
    struct.pack_into(">H", head, 18, 2048)
    struct.pack_into(">h", head, 50, 1)
    maxp = bytearray(6)
    struct.pack_into(">H", maxp, 4, len(dims))
    tabs = [(b"glyf", glyf), (b"head", bytes(head)), (b"loca", loca), (b"maxp", bytes(maxp))]
    out = bytearray(struct.pack(">IHHHH", 0x00010000, len(tabs), 0, 0, 0))
    off = 12 + 16 * len(tabs)
    body = b""
    for tag, data in tabs:
        out += struct.pack(">4sIII", tag, 0, off + len(body), len(data))
        body += data + b"\0" * ((-len(data)) % 4)
    return bytes(out) + body


def make_font_pdf(font: bytes, codes, label: str, broken_tounicode: bool = False, letters=None) -> bytes:
    """codes: glyph ids mapped to U+0000 by the ToUnicode CMap; letters: {glyph id: real character} of glyphs
    the document maps properly.  Page text = label, then one character per glyph id of codes+letters in
    ascending order."""
    letters = dict(letters or {})
    used = sorted(set(codes) | set(letters))
    tu = ("/CIDInit /ProcSet findresource begin 12 dict begin begincmap /CMapName /X def /CMapType 2 def\n"
          "1 begincodespacerange <0000> <FFFF> endcodespacerange\n"
          f"{len(used) + len(label)} beginbfchar\n"
          + "".join(f"<{c:04X}> <{ord(letters[c]) if c in letters else 0:04X}>\n" for c in used)
          + "".join(f"<{0x100 + i:04X}> <{ord(ch):04X}>\n" for i, ch in enumerate(label))
          + "endbfchar endcmap CMapName currentdict /CMap defineresource pop end end").encode()
    text = "".join(f"{0x100 + i:04X}" for i in range(len(label))) + "".join(f"{c:04X}" for c in used)
    content = f"BT /F1 12 Tf 72 700 Td <{text}> Tj ET".encode()
    objs = []

    def add(b):
        objs.append(b)

    def stream(d, extra=b""):
        return b"<< /Length %d %s>>\nstream\n" % (len(d), extra) + d + b"\nendstream"
    add(b"<< /Type /Catalog /Pages 2 0 R >>")
    add(b"<< /Type /Pages /Kids [3 0 R] /Count 1 >>")
    add(b"<< /Type /Page /Parent 2 0 R /MediaBox [0 0 612 792] /Contents 4 0 R "
        b"/Resources << /Font << /F1 5 0 R >> >> >>")
    add(stream(content))
    add(b"<< /Type /Font /Subtype /Type0 /BaseFont /AAAAAA+Fake /Encoding /Identity-H "
        b"/DescendantFonts [6 0 R] /ToUnicode 9 0 R >>")
    add(b"<< /Type /Font /Subtype /CIDFontType2 /BaseFont /AAAAAA+Fake /CIDSystemInfo << /Registry (Adobe) "
        b"/Ordering (Identity) /Supplement 0 >> /FontDescriptor 7 0 R /DW 600 /CIDToGIDMap /Identity >>")
    add(b"<< /Type /FontDescriptor /FontName /AAAAAA+Fake /Flags 4 /FontBBox [0 0 1000 1000] /ItalicAngle 0 "
        b"/Ascent 800 /Descent -200 /CapHeight 700 /StemV 80 /FontFile2 8 0 R >>")
    add(stream(font, b"/Length1 %d " % len(font)))
    add(b"42" if broken_tounicode else stream(tu))
    out = bytearray(b"%PDF-1.4\n")
    xref = []
    for i, o in enumerate(objs, 1):
        xref.append(len(out))
        out += b"%d 0 obj\n" % i + o + b"\nendobj\n"
    x = len(out)
    out += b"xref\n0 %d\n0000000000 65535 f \n" % (len(objs) + 1) + b"".join(b"%010d 00000 n \n" % p for p in xref)
    out += b"trailer\n<< /Size %d /Root 1 0 R >>\nstartxref\n%d\n%%%%EOF\n" % (len(objs) + 1, x)
    return bytes(out)


DOC_GLYPHS = [1, 2, 3, 4]          # every generated font document shows all of these glyphs
LETTERS = {1: "W", 2: "X", 3: "Y", 4: "Z"}


def font_doc(font_name: str, codes) -> bytes:
    """glyph ids in `codes` are null-mapped (digits to be recovered from the outlines); the other glyph ids
    of DOC_GLYPHS are mapped to their real letter, so that a wrongly reused, too large feature set is visible
    (the library would overwrite the letter with a digit)"""
    codes = list(codes)
    return make_font_pdf(make_ttf(FONTS[font_name]), codes, "Sum",
                         letters={c: LETTERS[c] for c in DOC_GLYPHS if c not in codes})


def glyph_projection(text: str, codes):
    """projection -> (gl, cl): gl = null-mapped glyph ids that came out as a digit;
    cl = properly mapped glyph ids that did NOT come out as their letter (clobbered)"""
    i = text.find("Sum")
    tail = text[i + 3: i + 3 + len(DOC_GLYPHS)] if i >= 0 else ""
    if len(tail) != len(DOC_GLYPHS):
        return [-1], [-1]
    gl = sorted(c for c, ch in zip(DOC_GLYPHS, tail) if c in codes and ch.isdigit())
    cl = sorted(c for c, ch in zip(DOC_GLYPHS, tail) if c not in codes and ch != LETTERS[c])
    return gl, cl


def failing_pdfs() -> dict:
    """garbage: PdfReader() fails (before the patch section).  fail-in-section: the page's font resource
    points at the content stream (no /Subtype): pypdf's build_char_map raises KeyError inside the patched
    wrapper on both extract_text attempts, so the exception crosses the `with _patched_build_char_map()`."""
    base = make_font_pdf(make_ttf(FONTS["g"]), [4, 5], "Sum")
    bad = base.replace(b"/Font << /F1 5 0 R >>", b"/Font << /F1 4 0 R >>")
    assert bad != base
    return {"garbage.pdf": b"%PDF-1.4\n1 0 obj\n<< /Type /Catalog >>\nendobj\ngarbage garbage\n%%EOF\n",
            "fail-in-section.pdf": bad}


def make_aes_pdfs(outdir: Path, src_pdf: Path) -> dict:
    """{'aes128': path, 'aes256': path}; written by a subprocess that applies the library's AES patch"""
    code = r"""
import sys, logging
logging.disable(logging.CRITICAL)
from sharepoint2text.parsing.extractors.pdf._pypdf_aes_fallback import patch_pypdf_fallback_aes
from pypdf import PdfReader, PdfWriter
import pypdf._crypt_providers as providers
if providers.crypt_provider[0] != "local_crypt_fallback":
    print("NOFALLBACK"); sys.exit(0)
assert patch_pypdf_fallback_aes()
src, out = sys.argv[1], sys.argv[2]
for alg, name in (("AES-128", "aes128"), ("AES-256-R5", "aes256")):
    w = PdfWriter(); w.add_page(PdfReader(src).pages[0])
    w.encrypt(user_password="", owner_password="owner", algorithm=alg)
    with open(f"{out}/{name}.pdf", "wb") as f: w.write(f)
print("OK")
"""
    outdir.mkdir(parents=True, exist_ok=True)
    p = subprocess.run([PY, "-c", code, str(src_pdf), str(outdir)], env=child_env(), capture_output=True, text=True)
    if p.returncode != 0:
        raise MachineryError("cannot write AES test PDFs:\n" + p.stderr[-1500:])
    if "NOFALLBACK" in p.stdout:
        return {}
    return {"aes128": outdir / "aes128.pdf", "aes256": outdir / "aes256.pdf"}


# --------------------------------------------------------------------------- failing archives (seed A2)
def _7z_num(v: int) -> bytes:
    for i in range(8):
        if v < (1 << (7 * (i + 1))):
            first = ((0xFF << (8 - i)) & 0xFF) | (v >> (8 * i))
            return bytes([first]) + (v & ((1 << (8 * i)) - 1)).to_bytes(i, "little")
    return b"\xff" + v.to_bytes(8, "little")


def _7z_bits(bits) -> bytes:
    out = bytearray((len(bits) + 7) // 8)
    for i, b in enumerate(bits):
        if b:
            out[i // 8] |= 0x80 >> (i % 8)
    return bytes(out)


def make_7z(members, damage_folder=None, anti=()) -> bytes:
    """Minimal 7z writer, plain header.  members: (name, data); data = bytes with content -> one folder (LZMA2,
    64 KiB dictionary) per member; data = b"" -> stream-less EMPTY FILE (kEmptyStream + kEmptyFile);
    data = None -> DIRECTORY (kEmptyStream only); names in `anti` (stream-less entries) get the kAnti bit.
    damage_folder = i: the packed stream of folder i starts with an invalid LZMA2 control byte, so the
    header parses, the archive is not encrypted, the folders before i decode, folder i does not."""
    import lzma
    import zlib
    filt = [{"id": lzma.FILTER_LZMA2, "dict_size": 1 << 16}]
    full = [(nm, d) for nm, d in members if d]
    packed = [lzma.compress(d, format=lzma.FORMAT_RAW, filters=filt) for _, d in full]
    if damage_folder is not None:
        blob = bytearray(packed[damage_folder])
        blob[0] = 0x03
        packed[damage_folder] = bytes(blob)
    n = len(full)
    h = bytearray(b"\x01\x04")                                   # Header, MainStreamsInfo
    h += b"\x06" + _7z_num(0) + _7z_num(n)                       # PackInfo
    h += b"\x09" + b"".join(_7z_num(len(p)) for p in packed) + b"\x00"
    h += b"\x07\x0b" + _7z_num(n) + b"\x00"                      # UnpackInfo / Folder
    for _ in full:
        h += _7z_num(1) + bytes([0x21]) + b"\x21" + _7z_num(1) + b"\x08"     # one coder: LZMA2, 1 prop byte
    h += b"\x0c" + b"".join(_7z_num(len(d)) for _, d in full) + b"\x00"
    h += b"\x08\x00" + b"\x00"                                   # SubStreamsInfo (1 per folder), end streams
    h += b"\x05" + _7z_num(len(members))                         # FilesInfo
    empty = [not d for _, d in members]
    if any(empty):
        v = _7z_bits(empty)
        h += b"\x0e" + _7z_num(len(v)) + v                        # kEmptyStream
        v = _7z_bits([d is not None for _, d in members if not d])
        h += b"\x0f" + _7z_num(len(v)) + v                        # kEmptyFile (set: empty file, clear: directory)
        if anti:
            v = _7z_bits([nm in anti for nm, d in members if not d])
            h += b"\x10" + _7z_num(len(v)) + v                    # kAnti
    names = b"\x00" + b"".join(nm.encode("utf-16-le") + b"\x00\x00" for nm, _ in members)
    h += b"\x11" + _7z_num(len(names)) + names + b"\x00" + b"\x00"
    body = b"".join(packed)
    start = struct.pack("<QQI", len(body), len(h), zlib.crc32(bytes(h)) & 0xFFFFFFFF)
    return b"7z\xbc\xaf\x27\x1c\x00\x04" + struct.pack("<I", zlib.crc32(start) & 0xFFFFFFFF) + start + body + bytes(h)


def escaping_7z_docs(abs_dir: str) -> dict:
    """7z archives with one healthy member and one STREAM-LESS entry (empty file / directory / anti item)
    whose name leaves the extraction directory: ../x, ../../x, a/../../x, absolute (below abs_dir, a
    directory that must never come into existence).  A correct reader refuses them (or ignores the entry)
    and leaves nothing behind - neither in the extraction directory nor next to it."""
    healthy = ("notes.txt", b"healthy member next to an escaping entry\n" * 4)
    names = {"up1": "../c15-escape-up1.txt", "up2": "../../c15-escape-up2.txt",
             "mid": "a/../../c15-escape-mid.txt", "abs": abs_dir.rstrip("/") + "/c15-escape-abs.txt"}
    out = {}
    for tag, nm in names.items():
        out[f"escape-emptyfile-{tag}.7z"] = make_7z([healthy, (nm, b"")])
        out[f"escape-dir-{tag}.7z"] = make_7z([healthy, (nm.replace(".txt", ".d"), None)])
        out[f"escape-anti-{tag}.7z"] = make_7z([healthy, (nm, b"")], anti=(nm,))
    out["emptyfile-ok.7z"] = make_7z([healthy, ("empty.txt", b""), ("sub", None)])      # the harmless shape
    return out


def archive_docs() -> dict:
    """name -> bytes: a healthy two-folder 7z, the same with the second folder damaged (extractall fails after
    the first folder's real bytes have reached the temp directory), a tar.gz cut inside the compressed stream,
    a zip whose second member's deflate data is damaged"""
    import gzip
    import io
    import tarfile
    import zipfile
    members = [("notes.txt", b"first member, stored in folder 0\n" * 6),
               ("report.txt", b"second member, stored in folder 1\n" * 6)]
    out = {"two-folders.7z": make_7z(members), "damaged-folder2.7z": make_7z(members, damage_folder=1)}
    buf = io.BytesIO()
    with tarfile.open(fileobj=buf, mode="w") as tf:
        for nm, data in members + [("big.txt", bytes(range(256)) * 64)]:
            ti = tarfile.TarInfo(nm)
            ti.size = len(data)
            tf.addfile(ti, io.BytesIO(data))
    gz = gzip.compress(buf.getvalue(), mtime=0)
    out["truncated.tar.gz"] = gz[: len(gz) * 2 // 3]
    zb = io.BytesIO()
    with zipfile.ZipFile(zb, "w", zipfile.ZIP_DEFLATED) as zf:
        for nm, data in members:
            zi = zipfile.ZipInfo(nm, date_time=(2020, 1, 1, 0, 0, 0))
            zf.writestr(zi, data * 20, compress_type=zipfile.ZIP_DEFLATED)
    z = bytearray(zb.getvalue())
    off = z.find(b"report.txt") + len(b"report.txt") + 4          # inside the second member's deflate stream
    for i in range(off, off + 6):
        z[i] ^= 0xFF
    out["damaged-member.zip"] = bytes(z)
    return out


# --------------------------------------------------------------------------- stored extractions (seed B2)
STORED = {"html": "html/sample.html", "txt": "plain_text/plain.txt", "pdf": "pdf/multi_table.pdf",
          "docx": "modern_ms/headings.docx", "eml": "mails/basic_email.eml"}


def make_stored_json(outdir: Path, res_root: Path) -> dict:
    """{tag: path of a JSON file holding to_json() of the first result}: "as written by an earlier run",
    produced in a throw-away subprocess so that this process's type registry is untouched"""
    code = r"""
import json, sys, logging
logging.disable(logging.CRITICAL)
import sharepoint2text
out = sys.argv[1]
for tag, src in zip(sys.argv[2::2], sys.argv[3::2]):
    res = next(iter(sharepoint2text.read_file(src)))
    with open(f"{out}/stored-{tag}.json", "w") as f:
        json.dump(res.to_json(), f)
print("OK")
"""
    outdir.mkdir(parents=True, exist_ok=True)
    args = []
    for tag, rel in sorted(STORED.items()):
        if not (res_root / rel).exists():
            raise MachineryError(f"fixture vanished: {rel}")
        args += [tag, str(res_root / rel)]
    p = subprocess.run([PY, "-c", code, str(outdir), *args], env=child_env(), capture_output=True, text=True)
    if p.returncode != 0 or "OK" not in p.stdout:
        raise MachineryError("cannot produce stored extractions:\n" + p.stderr[-1500:])
    return {tag: outdir / f"stored-{tag}.json" for tag in STORED}


# --------------------------------------------------------------------------- round 4: state that outlives a parser
SLOPPY_BODY = ("<h1>Sloppy {tag}</h1><p>before</p>"
               "<table><td>cell-{tag}-1</td><td>cell-{tag}-2</td></table>"          # td without tr
               "<tr><td>row-without-table-{tag}</td></tr>"                         # tr without table
               "<li>item-without-list-{tag}</li>"                                  # li without ul
               "<p>after <b>unclosed bold <i>and italics"                          # unclosed at end of input
               "<table><tr><td>open-cell-{tag}")                                   # unclosed table / row / cell
CLEAN_BODY = "<h1>Clean {tag}</h1><p>first paragraph {tag}</p><ul><li>one</li><li>two</li></ul><p>last {tag}</p>"


def make_epub(chapters) -> bytes:
    """minimal EPUB 2: mimetype, container.xml, content.opf (manifest + spine), one XHTML file per chapter body"""
    import io
    import zipfile
    buf = io.BytesIO()
    with zipfile.ZipFile(buf, "w") as z:
        def w(name, data, ct=zipfile.ZIP_DEFLATED):
            zi = zipfile.ZipInfo(name, date_time=(2020, 1, 1, 0, 0, 0))
            z.writestr(zi, data, compress_type=ct)
        w("mimetype", "application/epub+zip", zipfile.ZIP_STORED)
        w("META-INF/container.xml", '<?xml version="1.0"?><container version="1.0" '
          'xmlns="urn:oasis:names:tc:opendocument:xmlns:container"><rootfiles><rootfile '
          'full-path="OEBPS/content.opf" media-type="application/oebps-package+xml"/></rootfiles></container>')
        items = "".join(f'<item id="c{i}" href="c{i}.xhtml" media-type="application/xhtml+xml"/>'
                        for i in range(len(chapters)))
        refs = "".join(f'<itemref idref="c{i}"/>' for i in range(len(chapters)))
        w("OEBPS/content.opf", '<?xml version="1.0"?><package xmlns="http://www.idpf.org/2007/opf" version="2.0" '
          'unique-identifier="id"><metadata xmlns:dc="http://purl.org/dc/elements/1.1/"><dc:title>C15 book</dc:title>'
          '<dc:identifier id="id">c15</dc:identifier><dc:language>en</dc:language></metadata>'
          f'<manifest>{items}</manifest><spine>{refs}</spine></package>')
        for i, body in enumerate(chapters):
            w(f"OEBPS/c{i}.xhtml", '<?xml version="1.0"?><html xmlns="http://www.w3.org/1999/xhtml"><head>'
              f'<title>Chapter {i}</title></head><body>{body}</body></html>')
    return buf.getvalue()


def make_mhtml(body: str) -> bytes:
    return ("From: <Saved by C15>\r\nSubject: c15\r\nMIME-Version: 1.0\r\n"
            'Content-Type: multipart/related; type="text/html"; boundary="----c15b"\r\n\r\n'
            "------c15b\r\nContent-Type: text/html; charset=\"utf-8\"\r\nContent-Transfer-Encoding: 8bit\r\n"
            "Content-Location: http://example.invalid/page.html\r\n\r\n"
            f"<html><head><title>c15</title></head><body>{body}</body></html>\r\n------c15b--\r\n").encode()


def markup_docs() -> dict:
    """sloppy markup that reaches rarely initialised parser state, and clean counterparts (no table rows)"""
    out = {}
    for kind in ("sloppy", "clean"):
        body = SLOPPY_BODY if kind == "sloppy" else CLEAN_BODY
        out[f"{kind}.html"] = ("<html><head><title>c15</title></head><body>" + body.format(tag="html")
                                + ("</body></html>" if kind == "clean" else "")).encode()
        out[f"{kind}.mhtml"] = make_mhtml(body.format(tag="mhtml"))
        out[f"{kind}.epub"] = make_epub([body.format(tag="epub1"), CLEAN_BODY.format(tag="epub2")])
    return out


def repacked_variants(res_root: Path) -> dict:
    """a second, different document of each zip-based format with pictures that shares every part NAME with a
    fixture (same package paths, e.g. Pictures/<hash>.png): the fixture re-zipped with one extra member"""
    import io
    import zipfile
    src = {"odt": "open_office/image_extraction.odt", "odp": "open_office/image_extraction.odp",
           "ods": "open_office/image_extraction.ods", "docx": "modern_ms/sample_with_comment_and_table.docx",
           "pptx": "modern_ms/pptx_formula_image.pptx", "xlsx": "modern_ms/image_in_excel.xlsx",
           "epub": "epub/sample.epub"}
    out = {}
    for ext, rel in sorted(src.items()):
        p = res_root / rel
        if not p.exists():
            raise MachineryError(f"fixture vanished: {rel}")
        buf = io.BytesIO()
        with zipfile.ZipFile(p) as zin, zipfile.ZipFile(buf, "w") as zout:
            for zi in zin.infolist():
                zout.writestr(zi, zin.read(zi.filename), compress_type=zi.compress_type)
            zout.writestr(zipfile.ZipInfo("c15-extra/readme.bin", date_time=(2020, 1, 1, 0, 0, 0)), b"c15 variant")
        out[f"variant-of-{p.stem}.{ext}"] = buf.getvalue()
    return out


def make_7z_encrypted_header() -> bytes:
    """7z whose END header is an EncodedHeader with a 7zAES coder (7z a -mhe=on): only flagged, the packed
    bytes are noise - a reader must refuse it as encrypted without reading a file list"""
    import zlib
    packed = bytes((i * 37 + 11) & 0xFF for i in range(48))
    h = bytearray(b"\x17")                                        # kEncodedHeader
    h += b"\x06" + _7z_num(0) + _7z_num(1) + b"\x09" + _7z_num(len(packed)) + b"\x00"     # PackInfo
    h += b"\x07\x0b" + _7z_num(1) + b"\x00"                       # UnpackInfo, 1 folder
    props = b"\x53\x07" + b"\x00" * 8 + b"\x00" * 8               # numCyclesPower etc. (not interpreted)
    h += _7z_num(1) + bytes([0x24]) + b"\x06\xf1\x07\x01" + _7z_num(len(props)) + props   # coder 7zAES, has props
    h += b"\x0c" + _7z_num(40) + b"\x00"                          # unpack size, end UnpackInfo
    h += b"\x00"                                                  # end streams info
    start = struct.pack("<QQI", len(packed), len(h), zlib.crc32(bytes(h)) & 0xFFFFFFFF)
    return b"7z\xbc\xaf\x27\x1c\x00\x04" + struct.pack("<I", zlib.crc32(start) & 0xFFFFFFFF) + start + packed + bytes(h)


def make_aes_image_pdfs(outdir: Path, res_root: Path) -> dict:
    """two different AES-128 PDFs (different documents, different owner passwords -> different keys) whose page
    has image XObjects (streams that are decrypted outside page.extract_text)"""
    code = r"""
import sys, logging
logging.disable(logging.CRITICAL)
from sharepoint2text.parsing.extractors.pdf._pypdf_aes_fallback import patch_pypdf_fallback_aes
from pypdf import PdfReader, PdfWriter
import pypdf._crypt_providers as providers
if providers.crypt_provider[0] != "local_crypt_fallback":
    print("NOFALLBACK"); sys.exit(0)
assert patch_pypdf_fallback_aes()
out = sys.argv[1]
for i, src in enumerate(sys.argv[2:], 1):
    w = PdfWriter(); w.add_page(PdfReader(src).pages[0])
    w.encrypt(user_password="", owner_password=f"owner-{i}", algorithm="AES-128")
    with open(f"{out}/aesimg{i}.pdf", "wb") as f: w.write(f)
print("OK")
"""
    srcs = [res_root / "pdf" / "multi_image.pdf", res_root / "pdf" / "vendor-creation-form-english-version.pdf"]
    for s_ in srcs:
        if not s_.exists():
            raise MachineryError(f"fixture vanished: {s_}")
    outdir.mkdir(parents=True, exist_ok=True)
    p = subprocess.run([PY, "-c", code, str(outdir), *map(str, srcs)], env=child_env(), capture_output=True, text=True)
    if p.returncode != 0:
        raise MachineryError("cannot write AES image PDFs:\n" + p.stderr[-1500:])
    if "NOFALLBACK" in p.stdout:
        return {}
    return {f"aesimg{i}": outdir / f"aesimg{i}.pdf" for i in (1, 2)}


# --------------------------------------------------------------------------- round 5: helpers shared by threads
_M = "http://schemas.openxmlformats.org/officeDocument/2006/math"
_W = "http://schemas.openxmlformats.org/wordprocessingml/2006/main"
_A = "http://schemas.openxmlformats.org/drawingml/2006/main"
_P = "http://schemas.openxmlformats.org/presentationml/2006/main"
_R = "http://schemas.openxmlformats.org/officeDocument/2006/relationships"
_PKG = "http://schemas.openxmlformats.org/package/2006/relationships"
_CT = "http://schemas.openxmlformats.org/package/2006/content-types"


def _mr(t):
    return f"<m:r><m:t>{t}</m:t></m:r>"


def formula(kind: str, tag: int, runs: int = 60) -> str:
    """OMML formulas that reach the converter's stateful paths: 'sloppy' = <m:rad> holding only "(" with the
    radicand and ")" following as runs (pending-bracket stack), 'nested' = sqrt of a fraction of a sqrt,
    'brackets' = plain runs with parentheses (the victims of a stolen bracket)"""
    if kind == "sloppy":
        rad = "".join(_mr(f"a{tag}+") for _ in range(runs))
        return ('<m:oMath><m:rad><m:radPr><m:degHide m:val="1"/></m:radPr><m:deg/>'
                f"<m:e>{_mr('(')}</m:e></m:rad>{rad}{_mr('z)')}{_mr('+1')}</m:oMath>")
    if kind == "nested":
        inner = f'<m:rad><m:radPr><m:degHide m:val="1"/></m:radPr><m:deg/><m:e>{_mr(f"x{tag}")}</m:e></m:rad>'
        frac = f"<m:f><m:num>{inner}</m:num><m:den>{_mr(f'y{tag}+1')}</m:den></m:f>"
        return (f'<m:oMath><m:rad><m:radPr/><m:deg>{_mr("3")}</m:deg><m:e>{frac}</m:e></m:rad>'
                + "".join(_mr(f"+b{tag}") for _ in range(runs // 2)) + "</m:oMath>")
    return "<m:oMath>" + "".join(_mr(f"g{tag}(t)+") for _ in range(runs)) + _mr("c") + "</m:oMath>"


def _zip(parts: dict) -> bytes:
    import io
    import zipfile
    buf = io.BytesIO()
    with zipfile.ZipFile(buf, "w", zipfile.ZIP_DEFLATED) as z:
        for name, data in parts.items():
            z.writestr(zipfile.ZipInfo(name, date_time=(2020, 1, 1, 0, 0, 0)), data,
                       compress_type=zipfile.ZIP_STORED if name == "mimetype" else zipfile.ZIP_DEFLATED)
    return buf.getvalue()


def make_docx(body_xml: str) -> bytes:
    types = (f'<?xml version="1.0" encoding="UTF-8" standalone="yes"?><Types xmlns="{_CT}">'
             '<Default Extension="rels" ContentType="application/vnd.openxmlformats-package.relationships+xml"/>'
             '<Default Extension="xml" ContentType="application/xml"/><Override PartName="/word/document.xml" '
             'ContentType="application/vnd.openxmlformats-officedocument.wordprocessingml.document.main+xml"/></Types>')
    rels = (f'<?xml version="1.0" encoding="UTF-8" standalone="yes"?><Relationships xmlns="{_PKG}"><Relationship Id="rId1" '
            f'Type="{_R}/officeDocument" Target="word/document.xml"/></Relationships>')
    doc = (f'<?xml version="1.0" encoding="UTF-8" standalone="yes"?><w:document xmlns:w="{_W}" xmlns:m="{_M}">'
           f"<w:body>{body_xml}<w:sectPr/></w:body></w:document>")
    return _zip({"[Content_Types].xml": types, "_rels/.rels": rels, "word/document.xml": doc})


def make_pptx(slide_bodies) -> bytes:
    n = len(slide_bodies)
    types = (f'<?xml version="1.0" encoding="UTF-8" standalone="yes"?><Types xmlns="{_CT}">'
             '<Default Extension="rels" ContentType="application/vnd.openxmlformats-package.relationships+xml"/>'
             '<Default Extension="xml" ContentType="application/xml"/><Override PartName="/ppt/presentation.xml" '
             'ContentType="application/vnd.openxmlformats-officedocument.presentationml.presentation.main+xml"/>'
             + "".join(f'<Override PartName="/ppt/slides/slide{i}.xml" ContentType="application/vnd.openxmlformats-'
                       f'officedocument.presentationml.slide+xml"/>' for i in range(1, n + 1)) + "</Types>")
    rels = (f'<?xml version="1.0" encoding="UTF-8" standalone="yes"?><Relationships xmlns="{_PKG}"><Relationship Id="rId1" '
            f'Type="{_R}/officeDocument" Target="ppt/presentation.xml"/></Relationships>')
    pres = (f'<?xml version="1.0" encoding="UTF-8" standalone="yes"?><p:presentation xmlns:p="{_P}" xmlns:r="{_R}">'
            "<p:sldIdLst>" + "".join(f'<p:sldId id="{255 + i}" r:id="rId{i}"/>' for i in range(1, n + 1))
            + "</p:sldIdLst></p:presentation>")
    prels = (f'<?xml version="1.0" encoding="UTF-8" standalone="yes"?><Relationships xmlns="{_PKG}">'
             + "".join(f'<Relationship Id="rId{i}" Type="{_R}/slide" Target="slides/slide{i}.xml"/>'
                       for i in range(1, n + 1)) + "</Relationships>")
    parts = {"[Content_Types].xml": types, "_rels/.rels": rels, "ppt/presentation.xml": pres,
             "ppt/_rels/presentation.xml.rels": prels}
    for i, body in enumerate(slide_bodies, 1):
        parts[f"ppt/slides/slide{i}.xml"] = (
            f'<?xml version="1.0" encoding="UTF-8" standalone="yes"?><p:sld xmlns:p="{_P}" xmlns:a="{_A}" xmlns:m="{_M}" '
            'xmlns:a14="http://schemas.microsoft.com/office/drawing/2010/main"><p:cSld><p:spTree><p:nvGrpSpPr>'
            '<p:cNvPr id="1" name=""/><p:cNvGrpSpPr/><p:nvPr/></p:nvGrpSpPr><p:grpSpPr/><p:sp><p:nvSpPr><p:cNvPr id="2" '
            f'name="T"/><p:cNvSpPr/><p:nvPr/></p:nvSpPr><p:spPr/><p:txBody><a:bodyPr/>{body}</p:txBody></p:sp>'
            "</p:spTree></p:cSld></p:sld>")
    return _zip(parts)


def _wtbl(rows) -> str:
    return "<w:tbl>" + "".join("<w:tr>" + "".join(f"<w:tc>{c}</w:tc>" for c in r) + "</w:tr>" for r in rows) + "</w:tbl>"


def _wp(t) -> str:
    return f"<w:p><w:r><w:t>{t}</w:t></w:r></w:p>"


def office_docs() -> dict:
    """formula-heavy docx / pptx (one kind of formula per document, so the correct outputs differ), docx with
    tables nested in table cells (several, different sizes) and a docx with one large ordinary table"""
    out = {}
    for kind in ("sloppy", "nested", "brackets"):
        body = "".join(f"<w:p><w:r><w:t>Equation {i}</w:t></w:r>{formula(kind, i)}</w:p>" for i in range(40))
        out[f"formulas-{kind}.docx"] = make_docx(body)
        slides = ["".join(f"<a:p><a:r><a:t>Slide eq {s}.{i}</a:t></a:r><a14:m><m:oMathPara>{formula(kind, 100 + i)}"
                          "</m:oMathPara></a14:m></a:p>" for i in range(8)) for s in range(3)]
        out[f"formulas-{kind}.pptx"] = make_pptx(slides)
    for n in range(1, 6):
        inner = _wtbl([[_wp(f"in{n}-{r}-{c}") for c in range(3)] for r in range(4 * n)])
        rows = [[_wp(f"out{n}-{r}-0"), _wp(f"out{n}-{r}-1") + inner] for r in range(6)]
        out[f"tables-a-nested-{n}.docx"] = make_docx(_wp(f"Nested tables {n}") + _wtbl(rows))
    big = _wtbl([[_wp(f"cell-{r}-{c}") for c in range(8)] for r in range(40)])
    out["tables-b-large.docx"] = make_docx(_wp("One large table") + big + _wp("after the table"))
    return out


def make_odf(kind: str, body_xml: str) -> bytes:
    mt = {"odt": "application/vnd.oasis.opendocument.text", "ods": "application/vnd.oasis.opendocument.spreadsheet",
          "odp": "application/vnd.oasis.opendocument.presentation"}[kind]
    ns = ('xmlns:office="urn:oasis:names:tc:opendocument:xmlns:office:1.0" '
          'xmlns:text="urn:oasis:names:tc:opendocument:xmlns:text:1.0" '
          'xmlns:table="urn:oasis:names:tc:opendocument:xmlns:table:1.0" '
          'xmlns:draw="urn:oasis:names:tc:opendocument:xmlns:drawing:1.0"')
    tag = {"odt": "text", "ods": "spreadsheet", "odp": "presentation"}[kind]
    content = (f'<?xml version="1.0" encoding="UTF-8"?><office:document-content {ns} office:version="1.2">'
               f"<office:body><office:{tag}>{body_xml}</office:{tag}></office:body></office:document-content>")
    manifest = ('<?xml version="1.0" encoding="UTF-8"?><manifest:manifest '
                'xmlns:manifest="urn:oasis:names:tc:opendocument:xmlns:manifest:1.0" manifest:version="1.2">'
                f'<manifest:file-entry manifest:full-path="/" manifest:media-type="{mt}"/>'
                '<manifest:file-entry manifest:full-path="content.xml" manifest:media-type="text/xml"/></manifest:manifest>')
    return _zip({"mimetype": mt, "content.xml": content, "META-INF/manifest.xml": manifest})


def odf_docs() -> dict:
    """ODF documents that fail in the MIDDLE of a paragraph (text already collected, then an absurd
    text:s repeat count / a >1000-deep span nesting), and small healthy ODT / ODS / ODP to follow them"""
    boom = '<text:s text:c="100000000000000000000"/>'
    deep = "<text:span>" * 1500 + "x" + "</text:span>" * 1500
    cell = '<table:table-cell><text:p>{}</text:p></table:table-cell>'
    out = {
        "fail-midparagraph.odt": make_odf("odt", f"<text:p>CONFIDENTIAL draft{boom}tail</text:p>"),
        "fail-deepspans.odt": make_odf("odt", f"<text:p>SECRET prefix {deep}</text:p>"),
        "fail-midparagraph.ods": make_odf("ods", '<table:table table:name="S"><table:table-row>'
                                          + cell.format(f"LEAK cell{boom}") + "</table:table-row></table:table>"),
        "small.odt": make_odf("odt", "<text:h>Region report</text:h><text:p>first paragraph</text:p>"),
        "small.ods": make_odf("ods", '<table:table table:name="S"><table:table-row>' + cell.format("Region")
                              + cell.format("Sales") + "</table:table-row></table:table>"),
        "small.odp": make_odf("odp", '<draw:page draw:name="p1"><draw:frame><draw:text-box><text:p>Slide text'
                              "</text:p></draw:text-box></draw:frame></draw:page>"),
    }
    return out


# --------------------------------------------------------------------------- round 6: rare temp-directory paths
def rare_path_archives() -> dict:
    """archives that take the rare extraction paths: 7z with DUPLICATE member names (one extraction pass per
    duplicate), the same with the last folder damaged (failure in a later pass), a 7z inside a zip, and a mail
    whose attachments are such archives (nested temp use)"""
    import base64
    import io
    import zipfile
    m = [("report.txt", b"first version of the report\n" * 5), ("report.txt", b"second version of the report\n" * 5),
         ("notes.txt", b"unique member\n" * 5), ("report.txt", b"third version of the report\n" * 5)]
    dup = make_7z(m)
    out = {"dup-names.7z": dup, "dup-names-damaged-last.7z": make_7z(m, damage_folder=3),
           "dup-names-damaged-first.7z": make_7z(m, damage_folder=0)}
    zb = io.BytesIO()
    with zipfile.ZipFile(zb, "w", zipfile.ZIP_DEFLATED) as z:
        z.writestr(zipfile.ZipInfo("inner/dup-names.7z", date_time=(2020, 1, 1, 0, 0, 0)), dup)
        z.writestr(zipfile.ZipInfo("inner/readme.txt", date_time=(2020, 1, 1, 0, 0, 0)), b"zip holding a 7z\n")
        z.writestr(zipfile.ZipInfo("inner/damaged.7z", date_time=(2020, 1, 1, 0, 0, 0)), out["dup-names-damaged-last.7z"])
    out["zip-with-7z.zip"] = zb.getvalue()

    def part(name, data):
        return ("--c15mail\r\nContent-Type: application/octet-stream; name=\"%s\"\r\nContent-Transfer-Encoding: base64\r\n"
                "Content-Disposition: attachment; filename=\"%s\"\r\n\r\n%s\r\n"
                % (name, name, base64.encodebytes(data).decode().replace("\n", "\r\n")))
    out["mail-with-archives.eml"] = (
        "From: a@example.invalid\r\nTo: b@example.invalid\r\nSubject: archives attached\r\nDate: Mon, 1 Jan 2024 10:00:00 +0000\r\n"
        "MIME-Version: 1.0\r\nContent-Type: multipart/mixed; boundary=\"c15mail\"\r\n\r\n"
        "--c15mail\r\nContent-Type: text/plain; charset=\"utf-8\"\r\n\r\nsee attachments\r\n"
        + part("dup-names.7z", dup) + part("damaged.7z", out["dup-names-damaged-last.7z"])
        + part("nested.zip", out["zip-with-7z.zip"]) + "--c15mail--\r\n").encode()
    return out
