"""C08 concretisers (abstract container of Encryption.tla -> real bytes) and independent projections
(real bytes -> abstract container).  Nothing here computes an expectation: Class / Detector live in
specs/Encryption.tla.  The projections use their own small parsers (CFB names via olefile, BIFF record
walk, ZIP headers, 7z header, manifest / encryption.xml via ElementTree, /Encrypt via pypdf's trailer)
and serve (a) the repository fixtures (code -> spec traces), (b) a self-check of every generated
artefact: signature(project(build(c))) == signature(c), else MachineryError.
"""
from __future__ import annotations

import hashlib
import io
import lzma
import random
import struct
import zipfile
import zlib
from pathlib import Path
from xml.etree import ElementTree as ET

from . import REPO
from .c08_cfb import read_tree, write_cfb

RES = REPO / "sharepoint2text" / "tests" / "resources"
OLE_MAGIC = b"\xD0\xCF\x11\xE0\xA1\xB1\x1A\xE1"

# --------------------------------------------------------------------------- OLE names
REAL = {"DataSpaces6": "\x06DataSpaces", "DRMContent9": "\x09DRMContent", "CurrentUser": "Current User",
        "SummaryInformation": "\x05SummaryInformation"}
TOKEN = {v.lower(): k for k, v in REAL.items()}
OLE_TOKENS = ["EncryptionInfo", "EncryptedPackage", "DataSpaces6", "DataSpaces", "DRMContent9",
              "WordDocument", "Workbook", "SummaryInformation"]
PPT_TOKENS = ["EncryptionInfo", "EncryptedPackage", "DataSpaces", "DataSpaces6",
              "EncryptedSummary", "EncryptedSummaryInformation", "Pictures"]


def _rb(rng, n):
    return bytes(rng.getrandbits(8) for _ in range(n))


def _dataspaces(rng):
    return {"Version": b"\x3c\0\0\0" + "Microsoft.Container.DataSpaces".encode("utf-16-le") + b"\x01\0\0\0" * 3,
            "DataSpaceMap": _rb(rng, 112),
            "DataSpaceInfo": {"StrongEncryptionDataSpace": _rb(rng, 64)},
            "TransformInfo": {"StrongEncryptionTransform": {"\x06Primary": _rb(rng, 200)}}}


def _ole_entry(tok, rng, payload=b""):
    """(real name, value) for a stream-name token."""
    if tok == "EncryptionInfo":
        return tok, struct.pack("<HHI", 4, 4, 0x40) + b'<?xml version="1.0"?><encryption xmlns="http://schemas.' \
            b'microsoft.com/office/2006/encryption"><keyData saltSize="16" blockSize="16" keyBits="256"/></encryption>'
    if tok == "EncryptedPackage":
        body = _rb(rng, rng.choice([200, 4096, 6000]))
        return tok, struct.pack("<Q", max(1, len(body) - 7)) + body
    if tok == "DataSpaces6":
        return REAL[tok], _dataspaces(rng)
    if tok == "DRMContent9":
        return REAL[tok], _rb(rng, 300)
    return REAL.get(tok, tok), payload or _rb(rng, rng.choice([40, 700, 5000]))


def _case_variant(name, rng):
    m = rng.randrange(3)
    return name if m == 0 else name.lower() if m == 1 else name.upper()


def root_tokens(data, universe):
    """Root-level entry names of an OLE file as tokens of `universe` (names are case-insensitive)."""
    import olefile
    with olefile.OleFileIO(io.BytesIO(data)) as ole:
        roots = {p[0].lower() for p in ole.listdir(streams=True, storages=True)}
    out = []
    for tok in universe:
        if REAL.get(tok, tok).lower() in roots:
            out.append(tok)
    return sorted(out)


# --------------------------------------------------------------------------- ooxml
def build_ooxml(c, fmt, rng):
    from . import docrun
    if c["wrap"] != "ole":
        return docrun.render(docrun.rich_doc(fmt), fmt)
    tree = {}
    for tok in c["names"]:
        name, val = _ole_entry(tok, rng)
        if tok in ("EncryptionInfo", "EncryptedPackage"):
            name = _case_variant(name, rng)
        tree[name] = val
    return write_cfb(tree)


def project_ooxml(data):
    if data[:8] == OLE_MAGIC:
        return {"kind": "ooxml", "wrap": "ole", "names": root_tokens(data, OLE_TOKENS)}
    return {"kind": "ooxml", "wrap": "zip" if data[:2] == b"PK" else "other", "names": []}


# --------------------------------------------------------------------------- ppt
PPT_FIXTURES = ["legacy_ms/slide_with_notes.ppt", "legacy_ms/eurouni2.ppt", "legacy_ms/ppt_with_images.ppt"]
TOKEN_PLAIN, TOKEN_ENC = 0xE391C05F, 0xF3D1C4DF
_tree_cache: dict = {}


def fixture_tree(rel):
    if rel not in _tree_cache:
        _tree_cache[rel] = read_tree((RES / rel).read_bytes())
    return dict(_tree_cache[rel])


def build_ppt(c, rng, which=0):
    tree = fixture_tree(PPT_FIXTURES[which])
    tree.pop("Pictures", None)
    for tok in c["names"]:
        name, val = _ole_entry(tok, rng)
        if tok == "DataSpaces":
            val = _rb(rng, 90)
        tree[name] = val
    cu = tree["Current User"]
    assert struct.unpack_from("<I", cu, 12)[0] == TOKEN_PLAIN
    if c["token"] == "enc":
        tree["Current User"] = cu[:12] + struct.pack("<I", TOKEN_ENC) + cu[16:]
    elif c["token"] == "absent":
        del tree["Current User"]
    return write_cfb(tree)


def project_ppt(data):
    if data[:8] != OLE_MAGIC:
        return {"kind": "plain"}
    tree = read_tree(data)
    low = {k.lower(): v for k, v in tree.items()}
    cu = low.get("current user")
    tok = "absent"
    if isinstance(cu, bytes) and len(cu) >= 16:
        t = struct.unpack_from("<I", cu, 12)[0]
        tok = "enc" if t == TOKEN_ENC else "plain"
    return {"kind": "ppt", "names": root_tokens(data, PPT_TOKENS), "token": tok}


# --------------------------------------------------------------------------- xls
FILEPASS = 0x002F
_BOF = bytes.fromhex("0908100000060500bb0dcc07c100000006030000")[:20]
_FP_RC4 = None


def _fp_payloads():
    global _FP_RC4
    if _FP_RC4 is None:
        wb = read_tree((RES / "legacy_ms/password_protected/xls-password-protected-pw123.xls").read_bytes())["Workbook"]
        off = 4 + struct.unpack_from("<H", wb, 2)[0]
        rid, ln = struct.unpack_from("<HH", wb, off)
        assert rid == FILEPASS
        _FP_RC4 = wb[off + 4:off + 4 + ln]
    return [_FP_RC4, struct.pack("<HHH", 0, 0x1234, 0x5678)]        # RC4 header / XOR obfuscation (6 bytes)


def _rec(rid, payload):
    return struct.pack("<HH", rid, len(payload)) + payload


def xls_records(kinds, rng):
    """Abstract record kinds -> BIFF bytes.  After OVR the following records are emitted as its (short) payload."""
    out = b""
    for k in kinds:
        if k == "BOF":
            out += _rec(0x0809, _BOF[4:])
        elif k == "FP":
            out += _rec(FILEPASS, rng.choice(_fp_payloads()))
        elif k == "X":
            out += rng.choice([_rec(0x0042, b"\xb0\x04"), _rec(0x00E1, b"\xb0\x04"), _rec(0x000A, b""),
                               _rec(0x003D, _rb(rng, 18).replace(b"\x2f", b"\x30"))])
        elif k == "X2F":
            pad = b"\x20" * rng.choice([0, 1, 2, 3])
            out += _rec(0x005C, pad + b"\x2f\x00\x36\x00" + b"\x2f\x00\x06\x00\x00\x00" + b" " * 20)
        elif k == "OVR":
            out += struct.pack("<HH", rng.choice([0x00E2, 0x0042, 0x003C]), 0xFFF0) + b"\x01\x02"
        else:
            raise ValueError(k)
    return out


def build_xls(c, rng, base="legacy_ms/mwe.xls"):
    tree = fixture_tree(base)
    tree.pop("Workbook", None)
    tree.pop("Book", None)
    stream = xls_records(c["recs"], rng)
    if "OVR" not in c["recs"]:
        stream += bytes(rng.choice([0x00, 0x01, 0x30]) for _ in range(rng.randrange(4)))    # < 4 trailing bytes
    if c["stream"] == "none":
        tree["Sheet"] = stream
    else:
        tree[c["stream"]] = stream
    if "\x05SummaryInformation" not in tree:
        tree["\x05SummaryInformation"] = b"\xfe\xff" + b"\0" * 46
    return write_cfb(tree)


def walk_records(stream):
    """[(kind, offset)] of a BIFF stream; kinds as in Encryption.tla."""
    out, off, n = [], 0, len(stream)
    while off + 4 <= n:
        rid, ln = struct.unpack_from("<HH", stream, off)
        over = off + 4 + ln > n
        if rid == FILEPASS:
            out.append("FP")          # (an overrunning FILEPASS is still a FILEPASS record header)
        elif over:
            out.append("OVR")
        elif rid == 0x0809 or rid == 0x0409 or rid == 0x0209 or rid == 0x0009:
            out.append("BOF")
        elif b"\x2f\x00" in stream[off + 4:off + 4 + ln]:
            out.append("X2F")
        else:
            out.append("X")
        if over:
            # what follows lies inside the declared payload: report FILEPASS-looking bytes as hidden records
            rest = stream[off + 4:]
            if rid != FILEPASS and b"\x2f\x00" in rest:
                out.append("FP")
            break
        off += 4 + ln
    return out


def project_xls(data):
    if data[:8] != OLE_MAGIC:
        return {"kind": "plain"}
    tree = read_tree(data)
    low = {k.lower(): (k, v) for k, v in tree.items() if isinstance(v, bytes)}
    for nm in ("workbook", "book"):
        if nm in low:
            return {"kind": "xls", "stream": "Workbook" if nm == "workbook" else "Book", "recs": walk_records(low[nm][1])}
    recs = walk_records(tree["Sheet"]) if isinstance(tree.get("Sheet"), bytes) else []
    return {"kind": "xls", "stream": "none", "recs": recs}


def xls_insertions(rel, positions, rng, ovr_before=False):
    """Real workbook stream of fixture `rel` with a FILEPASS record inserted before record #p (0-based)."""
    tree = fixture_tree(rel)
    wb = tree["Workbook"]
    offs, off = [], 0
    while off + 4 <= len(wb):
        offs.append(off)
        off += 4 + struct.unpack_from("<H", wb, off + 2)[0]
    offs.append(off)
    out = []
    for p in positions:
        p = min(p, len(offs) - 1)
        ins = _rec(FILEPASS, rng.choice(_fp_payloads()))
        if ovr_before:
            ins = struct.pack("<HH", 0x00E2, 0xFFF0) + ins
        t = dict(tree)
        t["Workbook"] = wb[:offs[p]] + ins + wb[offs[p]:]
        out.append((p, write_cfb(t)))
    return out, len(offs) - 1


# --------------------------------------------------------------------------- doc
DOC_FIXTURES = ["legacy_ms/headings.doc", "legacy_ms/Speech_Prime_Minister_of_The_Netherlands_EN.doc",
                "legacy_ms/password_protected/doc-password-protected-pw123.doc"]


DOC_MAGIC = {"w97": 0xA5EC, "w95": 0xA5DC}        # FibBase.wIdent values the reader accepts (Word 97-2003 / Word 6, 95)


def build_doc(c, which=0):
    """which 0..2: a repository fixture; 3: a generated document (mbv/writers/doc.py, read-only import)."""
    if which < len(DOC_FIXTURES):
        tree = fixture_tree(DOC_FIXTURES[which])
    else:
        from . import docrun
        from .writers import doc as wdoc
        tree = read_tree(wdoc.write_doc(docrun.flow_doc([["p", [["r", 1], ["tab"], ["r", 2]]], ["p", [["r", 3]]]])))
    wd = tree["WordDocument"]
    fl = struct.unpack_from("<H", wd, 0x0A)[0] & ~0x8100
    fl |= (0x0100 if c["fEncrypted"] else 0) | (0x8000 if c["fObfuscated"] else 0)
    tree["WordDocument"] = struct.pack("<H", DOC_MAGIC[c["magic"]]) + wd[2:0x0A] + struct.pack("<H", fl) + wd[0x0C:]
    return write_cfb(tree)


def project_doc(data):
    if data[:8] != OLE_MAGIC:
        return {"kind": "plain"}
    wd = read_tree(data).get("WordDocument")
    if not isinstance(wd, bytes) or len(wd) < 12:
        return {"kind": "plain"}
    fl = struct.unpack_from("<H", wd, 0x0A)[0]
    magic = {v: k for k, v in DOC_MAGIC.items()}.get(struct.unpack_from("<H", wd, 0)[0])
    if magic is None:
        return {"kind": "plain"}              # not a Word binary the reader accepts
    return {"kind": "doc", "magic": magic, "fEncrypted": bool(fl & 0x0100), "fObfuscated": bool(fl & 0x8000)}


# --------------------------------------------------------------------------- odf
MANIFEST_NS = "urn:oasis:names:tc:opendocument:xmlns:manifest:1.0"
TRICKY = {"Pictures/encryption-data.png": "encryption-data", "manifest:algorithm.txt": "manifest:algorithm",
          "manifest:encrypted.bin": "manifest:encrypted"}
ODF_FMTS = ["odt", "ods", "odp", "odg", "odf"]
_PNG = bytes.fromhex("89504e470d0a1a0a0000000d4948445200000001000000010802000000907753de0000000c4944415408d763f8cfc0"
                     "000003010100c9fe92ef0000000049454e44ae426082")


_base_cache: dict = {}


def _odf_base(fmt):
    from . import docrun
    if fmt not in _base_cache:
        _base_cache[fmt] = ((RES / "open_office/formular.odf").read_bytes() if fmt == "odf"
                            else docrun.render(docrun.rich_doc(fmt), fmt))
    return _base_cache[fmt]


def _enc_data(p):
    return (f'<{p}:encryption-data {p}:checksum-type="SHA1/1K" {p}:checksum="W9RHDyQaxabUkoRf86KWItAJgiQ=">'
            f'<{p}:algorithm {p}:algorithm-name="Blowfish CFB" {p}:initialisation-vector="O9r4gB9Yw3U="/>'
            f'<{p}:key-derivation {p}:key-derivation-name="PBKDF2" {p}:key-size="16" {p}:iteration-count="1024" '
            f'{p}:salt="tp2mXCM+GYZeoPep42uocQ=="/></{p}:encryption-data>')


def build_odf(c, fmt, rng):
    base = _odf_base(fmt)
    zi = zipfile.ZipFile(io.BytesIO(base))
    members = [(i, zi.read(i)) for i in zi.infolist() if i.filename != "META-INF/manifest.xml"]
    names = [i.filename for i, _ in members]
    mimetype = zi.read("mimetype").decode() if "mimetype" in names else "application/vnd.oasis.opendocument.text"
    p = c["prefix"]
    plain_pool = [n for n in ("content.xml", "styles.xml", "meta.xml", "settings.xml") if n in names] or names[:]
    ed_for, extra, used_plain = {}, [], 0
    tricky_seen = {}
    for e in c["entries"]:
        nm = e["name"]
        if nm == "content.xml":
            real = plain_pool[used_plain % len(plain_pool)]
            if used_plain >= len(plain_pool):
                real = f"Configurations2/extra{used_plain}.xml"
                extra.append((real, b"<x/>"))
            used_plain += 1
        else:
            k = tricky_seen.get(nm, 0)
            tricky_seen[nm] = k + 1
            stem, dot, ext = nm.rpartition(".")
            real = nm if k == 0 else f"{stem}-{k}{dot}{ext}"
            extra.append((real, _PNG if real.endswith(".png") else b"data"))
        ed_for[real] = ed_for.get(real, False) or e["ed"]
    all_names = names + [n for n, _ in extra]
    ent = [f'<{p}:file-entry {p}:full-path="/" {p}:media-type="{mimetype}"/>' if c.get("order", "path-first") == "path-first"
           else f'<{p}:file-entry {p}:media-type="{mimetype}" {p}:full-path="/"/>']
    for n in all_names:
        if n == "mimetype" or n.endswith("/"):
            continue
        mt = "text/xml" if n.endswith(".xml") else "image/png" if n.endswith(".png") else ""
        attrs = (f'{p}:full-path="{n}" {p}:media-type="{mt}"' if c.get("order", "path-first") == "path-first"
                 else f'{p}:media-type="{mt}" {p}:full-path="{n}"')
        if ed_for.get(n):
            ent.append(f'<{p}:file-entry {attrs} {p}:size="77">{_enc_data(p)}</{p}:file-entry>')
        else:
            ent.append(f'<{p}:file-entry {attrs}/>')
    encname, codec = ODF_ENCODINGS[c["enc"]]
    doctype = {"none": "", "external": f'<!DOCTYPE {p}:manifest PUBLIC "-//OpenOffice.org//DTD Manifest 1.0//EN" "Manifest.dtd">\n',
               "internal": f'<!DOCTYPE {p}:manifest [<!ENTITY c08 "generated">]>\n'}[c.get("doctype", "none")]
    prolog = "<!-- written by the C08 harness --><?c08 keep=\"1\"?>\n" if c.get("prolog", "none") != "none" else ""
    text = (f'<?xml version="1.0" encoding="{encname}"?>\n{prolog}{doctype}<{p}:manifest xmlns:{p}="{MANIFEST_NS}" '
            f'{p}:version="1.2">\n ' + "\n ".join(ent) + f"\n</{p}:manifest>")
    man = text.encode(codec)
    out = io.BytesIO()
    with zipfile.ZipFile(out, "w") as zo:
        for i, d in members:
            zo.writestr(i, d, compress_type=i.compress_type)
        for n, d in extra:
            zo.writestr(n, d)
        zo.writestr("META-INF/manifest.xml", man, zipfile.ZIP_DEFLATED)
    return out.getvalue()


ODF_ENCODINGS = {"utf8": ("UTF-8", "utf-8"), "utf16": ("UTF-16", "utf-16"), "latin1": ("ISO-8859-1", "latin-1"),
                 "sjis": ("Shift_JIS", "shift_jis")}


def project_odf(data):
    import re
    try:
        zf = zipfile.ZipFile(io.BytesIO(data))
        man = zf.read("META-INF/manifest.xml")
    except (zipfile.BadZipFile, KeyError):
        return {"kind": "plain"}
    enc = "utf8"
    if man[:2] in (b"\xff\xfe", b"\xfe\xff"):
        enc = "utf16"
    else:
        d = re.match(rb"""<\?xml[^>]*encoding=["']([A-Za-z0-9._-]+)["']""", man)
        name = d.group(1).decode().lower() if d else "utf-8"
        enc = {"utf-8": "utf8", "iso-8859-1": "latin1", "latin1": "latin1", "shift_jis": "sjis"}.get(name, "utf8")
    text = man.decode(ODF_ENCODINGS[enc][1], errors="replace")
    # own transcoding to UTF-8 without declaration / DOCTYPE: the standard parser refuses multi-byte encodings
    body = re.sub(r"^\s*<\?xml[^>]*\?>", "", text.lstrip("\ufeff"))
    m_root = re.search(r"<[A-Za-z][\w.-]*:manifest[\s>]", body)
    before = body[:m_root.start()] if m_root else ""
    doctype = "none" if "<!DOCTYPE" not in before else ("internal" if "[" in before[before.index("<!DOCTYPE"):] else "external")
    prolog = "comment-pi" if ("<!--" in before or "<?" in before) else "none"
    clean = re.sub(r"<!DOCTYPE[^\[>]*(\[.*?\])?\s*>", "", body, count=1, flags=re.S)
    root = ET.fromstring(clean.encode("utf-8"))
    entries = []
    for fe in root.iter("{%s}file-entry" % MANIFEST_NS):
        path = fe.get("{%s}full-path" % MANIFEST_NS) or ""
        if path == "/":
            continue
        ed = fe.find("{%s}encryption-data" % MANIFEST_NS) is not None
        tok = "content.xml"
        for t, sub in TRICKY.items():
            if sub in path:
                tok = t
        entries.append({"name": tok, "ed": ed})
    prefix = "manifest" if "<manifest:manifest" in text else "m"
    fe = re.search(r"<[\w.-]+:file-entry\s+([\w.-]+):([\w-]+)=", body)
    order = "type-first" if fe and fe.group(2) == "media-type" else "path-first"
    return {"kind": "odf", "enc": enc, "prefix": prefix, "doctype": doctype, "prolog": prolog, "order": order,
            "entries": entries}


# --------------------------------------------------------------------------- pdf
PDF_ALGS = ["RC4-40", "RC4-128", "AES-128", "AES-256-R5", "AES-256"]


def plain_pdf(seed=0):
    from . import docrun
    return docrun.render(docrun.rich_doc("pdf", seed), "pdf")


def _pad_to(n, res):
    """smallest m >= n with m % 16 == res"""
    return n + ((res - n) % 16)


def _lit(raw: bytes) -> bytes:
    return b"(" + raw.replace(b"\\", b"\\\\").replace(b"(", b"\\(").replace(b")", b"\\)") + b")"


def layout_pdf(c, seed=0, handler=None):
    """Two-page PDF whose encrypted plaintexts have chosen lengths modulo the AES block size:
    every page content stream (raw, or Flate-compressed when c["flate"]) has len % 16 == c["slen"]; the strings
    /Info /Title, /Info /Author and a string in every page dictionary have len % 16 == c["strlen"].
    Also carries one small Flate image (arbitrary length) so that image extraction is compared too.
    handler = None writes the unencrypted original; a c08_pdfcrypt.Handler writes the SAME objects with every
    string and stream encrypted by that independent implementation (+ the /Encrypt dictionary)."""
    from .docmodel import word
    rng = random.Random(seed * 977 + 13)
    slen, strlen = c["slen"], c["strlen"]

    def string_of(prefix):
        n = _pad_to(len(prefix) + 1, strlen)
        if n < 15:
            n += 16
        raw = (prefix + " " + "x" * n)[:n].encode()
        if len(raw) % 16 != strlen:
            raise ValueError("c08 layout_pdf: string length")
        return raw

    def content_stream(tokens_per_line):
        body = b"BT /F1 12 Tf 14 TL 72 760 Td\n" + b"".join(
            b"(" + " ".join(word(i) for i in ln).encode() + b") Tj T*\n" for ln in tokens_per_line) + b"ET\n"
        if not c["flate"]:
            n = _pad_to(len(body), slen)
            return body + b" " * (n - len(body)), b""
        for k in range(0, 400):                      # an incompressible comment moves the compressed length
            cand = body + (b"%" + bytes(rng.choice(b"0123456789abcdefghijklmnopqrstuvwxyz") for _ in range(k)) + b"\n" if k else b"")
            comp = zlib.compress(cand, 6)
            if len(comp) % 16 == slen:
                return comp, b" /Filter /FlateDecode"
        raise ValueError("c08 layout_pdf: no Flate length with residue %d" % slen)

    def S(num, raw):                                 # a string inside object `num`
        return _lit(raw) if handler is None else b"<" + handler.string(num, raw).hex().encode() + b">"

    def stream_obj(num, dict_body, raw):
        data = raw if handler is None else handler.stream(num, raw)
        return b"<< " + dict_body + b" /Length %d >>\nstream\n" % len(data) + data + b"\nendstream"

    pages_tokens = [[[1, 2], [3]], [[4]]]
    objs = []

    def add(fn):
        objs.append(b"")
        num = len(objs)
        objs[num - 1] = fn(num)
        return num
    font = add(lambda n: b"<< /Type /Font /Subtype /Type1 /BaseFont /Helvetica /Encoding /WinAnsiEncoding >>")
    pages_id = add(lambda n: b"")
    img = zlib.compress(bytes(rng.getrandbits(8) for _ in range(6 * 5 * 3)))
    img_id = add(lambda n: stream_obj(n, b"/Type /XObject /Subtype /Image /Width 6 /Height 5 /ColorSpace /DeviceRGB "
                                         b"/BitsPerComponent 8 /Filter /FlateDecode", img))
    kids = []
    for pn, toks in enumerate(pages_tokens, start=1):
        data, flt = content_stream(toks)
        if len(data) % 16 != slen:
            raise ValueError("c08 layout_pdf: stream length")
        cid = add(lambda n: stream_obj(n, flt.strip() or b"/C08 true", data))
        kids.append(add(lambda n: b"<< /Type /Page /Parent %d 0 R /MediaBox [0 0 612 792] /Contents %d 0 R /C08Note %s "
                                  b"/Resources << /Font << /F1 %d 0 R >> /XObject << /Im1 %d 0 R >> >> >>"
                                  % (pages_id, cid, S(n, string_of("C08 page %d note" % pn)), font, img_id)))
    objs[pages_id - 1] = b"<< /Type /Pages /Count %d /Kids [%s] >>" % (len(kids), b" ".join(b"%d 0 R" % k for k in kids))
    info = add(lambda n: b"<< /Title %s /Author %s >>" % (S(n, string_of("C08 title")), S(n, string_of("Au Thor"))))
    cat = add(lambda n: b"<< /Type /Catalog /Pages %d 0 R >>" % pages_id)
    enc = add(lambda n: handler.encrypt_dict()) if handler is not None else None
    out = bytearray(b"%PDF-1.7\n%\xe2\xe3\xcf\xd3\n")
    offs = []
    for n, body in enumerate(objs, start=1):
        offs.append(len(out))
        out += b"%d 0 obj\n" % n + body + b"\nendobj\n"
    xref = len(out)
    out += b"xref\n0 %d\n0000000000 65535 f \n" % (len(objs) + 1) + b"".join(b"%010d 00000 n \n" % o for o in offs)
    did = pdf_doc_id(seed).hex().encode()
    out += (b"trailer\n<< /Size %d /Root %d 0 R /Info %d 0 R /ID [<%s> <%s>]%s >>\nstartxref\n%d\n%%%%EOF\n"
            % (len(objs) + 1, cat, info, did, did, (b" /Encrypt %d 0 R" % enc) if enc else b"", xref))
    return bytes(out)


def pdf_doc_id(seed):
    return hashlib.md5(b"c08-%d" % seed).digest()


def plain_pdf_for(c, seed=0):
    """The unencrypted original of an abstract PDF container (layout fields: flate, slen, strlen)."""
    return layout_pdf(c, seed)


def build_pdf(c, rng, plain=None, seed=0):
    """The encrypted twin of plain_pdf_for(c, seed): same objects, strings and streams encrypted by the independent
    implementation mbv/c08_pdfcrypt.py (own AES checked against FIPS-197 / SP 800-38A vectors, own RC4, hashlib) --
    neither pypdf nor the library's AES fallback takes part, so a defect in the code under test cannot round-trip."""
    if c["alg"] == "none":
        return plain if plain is not None else layout_pdf(c, seed)
    from .c08_pdfcrypt import Handler
    user = "" if c["userEmpty"] else rng.choice(["u", "pw123", "pässwörd", "x" * 40])
    if c["owner"] == "same":          # equal to the user password: given explicitly, or no owner password at all
        owner = rng.choice([user, None])
    else:
        owner = rng.choice(["owner", "o" * 33, "s3cret"])
    return layout_pdf(c, seed, Handler(c["alg"], user, owner, pdf_doc_id(seed), rng))


# plaintext lengths are not visible in an encrypted file; a fixture gets the neutral layout (no part in Class)
_FIXTURE_LAYOUT = {"flate": False, "slen": 1, "strlen": 1}


def project_pdf(data, user_empty=None):
    """Reads the /Encrypt dictionary straight from the bytes (no PDF library: pypdf cannot even open an AES-256
    file without an AES provider)."""
    import re
    if not data.lstrip()[:5] == b"%PDF-":
        return {"kind": "plain"}
    m = None
    for m in re.finditer(rb"/Encrypt\s*(?:(\d+)\s+(\d+)\s+R|<<)", data):
        pass                                                     # the last trailer wins
    if m is None:
        return {"kind": "pdf", "alg": "none", "userEmpty": True, "owner": "same", **_FIXTURE_LAYOUT}
    if m.group(1):
        o = re.search(rb"(?<!\d)%d\s+%d\s+obj(.*?)endobj" % (int(m.group(1)), int(m.group(2))), data, re.S)
        e = o.group(1) if o else b""
    else:
        e = data[m.end():m.end() + 2000]

    def num(key, default):
        k = re.search(rb"/" + key + rb"\s+(-?\d+)", e)
        return int(k.group(1)) if k else default
    v, rev, ln = num(b"V", 0), num(b"R", 0), num(b"Length", 40)
    if v in (1, 2) and rev in (2, 3):
        alg = "RC4-40" if ln <= 40 else "RC4-128"
    elif v == 4:
        alg = "AES-128" if b"/AESV2" in e else "RC4-128"
    elif v == 5:
        alg = "AES-256-R5" if rev == 5 else "AES-256"
    else:
        alg = "RC4-40"
    # the owner password is not visible in the bytes either (it does not enter the classification)
    return {"kind": "pdf", "alg": alg, "userEmpty": bool(user_empty), "owner": "distinct", **_FIXTURE_LAYOUT}


# --------------------------------------------------------------------------- zip
UNSUPPORTED_METHODS = [9, 93, 98, 1, 6]
_CRCT = [0] * 256
for _i in range(256):
    _c = _i
    for _ in range(8):
        _c = (_c >> 1) ^ 0xEDB88320 if _c & 1 else _c >> 1
    _CRCT[_i] = _c


def zipcrypto_encrypt(data, pwd, crc, rng):
    k = [0x12345678, 0x23456789, 0x34567890]

    def upd(b):
        k[0] = (k[0] >> 8) ^ _CRCT[(k[0] ^ b) & 0xFF]
        k[1] = ((k[1] + (k[0] & 0xFF)) * 134775813 + 1) & 0xFFFFFFFF
        k[2] = (k[2] >> 8) ^ _CRCT[(k[2] ^ (k[1] >> 24)) & 0xFF]
    for b in pwd:
        upd(b)
    hdr = _rb(rng, 11) + bytes([crc >> 24])
    out = bytearray()
    for b in hdr + data:
        t = (k[2] | 2) & 0xFFFF
        out.append(b ^ (((t * (t ^ 1)) >> 8) & 0xFF))
        upd(b)
    return bytes(out)


def build_zip(c, rng):
    local, central = b"", b""
    for n, m in enumerate(c["members"], start=1):
        if m["dir"]:
            name, data = f"d{n}/".encode(), b""
        else:
            # member names of every class the archive reader tells apart: extracted (.txt), skipped for their type (.dat),
            # hidden (dot-file), resource-fork directory (__MACOSX/).  Encryption.tla classifies the container by the flag
            # bits of ANY non-directory member ("encrypted ZIP archives are rejected"), whatever its name
            pattern = rng.choice(("m{n}.txt", "m{n}.txt", "m{n}.dat", ".m{n}.txt", "__MACOSX/m{n}.txt", "sub/.m{n}.txt"))
            name, data = pattern.format(n=n).encode(), f"zq{n:04d}x member {n}\n".encode()
        crc = zlib.crc32(data) & 0xFFFFFFFF
        method = 0
        payload = data
        if not m["dir"] and rng.random() < 0.5 and m["err"] == "none":
            method = 8
            co = zlib.compressobj(6, zlib.DEFLATED, -15)
            payload = co.compress(data) + co.flush()
        if m["fc"] and m["fl"] and not m["dir"] and rng.random() < 0.6:
            payload = zipcrypto_encrypt(payload, b"pw123", crc, rng)         # really encrypted, not only flagged
        if m["err"] == "unsupported":
            method = rng.choice(UNSUPPORTED_METHODS)
        crc_w = crc ^ 0x5A5A5A5A if m["err"] == "badcrc" else crc
        fl = 1 if m["fl"] else 0
        fc = 1 if m["fc"] else 0
        off = len(local)
        local += struct.pack("<4sHHHHHIIIHH", b"PK\x03\x04", 20, fl, method, 0, 0x21, crc_w, len(payload), len(data),
                             len(name), 0) + name + payload
        central += struct.pack("<4sHHHHHHIIIHHHHHII", b"PK\x01\x02", 20, 20, fc, method, 0, 0x21, crc_w, len(payload),
                               len(data), len(name), 0, 0, 0, 0, 0x10 if m["dir"] else 0, off) + name
    eocd = struct.pack("<4sHHHHIIH", b"PK\x05\x06", 0, 0, len(c["members"]), len(c["members"]), len(central), len(local), 0)
    return local + central + eocd


def project_zip(data):
    try:
        i = data.rindex(b"PK\x05\x06")
    except ValueError:
        return {"kind": "plain"}
    n, size, off = struct.unpack_from("<HII", data, i + 10)
    members, p = [], off
    for _ in range(n):
        (sig, _vm, _vn, fc, method, _t, _d, crc, csize, usize, nl, el, cl, _dn, _ia, ea, lo) = \
            struct.unpack_from("<4sHHHHHHIIIHHHHHII", data, p)
        if sig != b"PK\x01\x02":
            break
        name = data[p + 46:p + 46 + nl]
        p += 46 + nl + el + cl
        fl, = struct.unpack_from("<H", data, lo + 6)
        lnl, lel = struct.unpack_from("<HH", data, lo + 26)
        body = data[lo + 30 + lnl + lel: lo + 30 + lnl + lel + csize]
        isdir = name.endswith(b"/")
        err = "none"
        if not isdir:
            if method not in (0, 8, 12, 14):
                err = "unsupported"
            elif not (fc & 1):
                try:
                    raw = body if method == 0 else zlib.decompress(body, -15) if method == 8 else None
                    if raw is not None and (zlib.crc32(raw) & 0xFFFFFFFF) != crc:
                        err = "badcrc"
                except zlib.error:
                    err = "badcrc"
        members.append({"fc": bool(fc & 1), "fl": bool(fl & 1), "dir": isdir, "err": err})
    return {"kind": "zip", "members": members}


# --------------------------------------------------------------------------- 7z
CODER_BYTES = {"COPY": b"\x00", "LZMA": b"\x03\x01\x01", "LZMA2": b"\x21", "BCJ": b"\x03\x03\x01\x03",
               "AES": b"\x06\xf1\x07\x01", "AESX": b"\x06\xf1\x07\x02"}
CODER_TOKEN = {v: k for k, v in CODER_BYTES.items()}
_LZMA1 = {"id": lzma.FILTER_LZMA1, "dict_size": 1 << 16, "lc": 3, "lp": 0, "pb": 2}
_LZMA1_PROPS = bytes([0x5D]) + struct.pack("<I", 1 << 16)
_LZMA2 = {"id": lzma.FILTER_LZMA2, "dict_size": 1 << 20}
_AES_PROPS = b"\x53\x07" + bytes(range(8))                      # numCyclesPower 19, 8-byte iv


def _num(n):
    if n < 0x80:
        return bytes([n])
    if n < 0x4000:
        return bytes([0x80 | (n >> 8), n & 0xFF])
    if n < 0x200000:
        return bytes([0xC0 | (n >> 16), n & 0xFF, (n >> 8) & 0xFF])
    raise ValueError("c08 7z writer: number too large")


def _coder_props(tok):
    return {"LZMA": _LZMA1_PROPS, "LZMA2": bytes([16]), "AES": _AES_PROPS, "AESX": _AES_PROPS}.get(tok)


def _folder_bytes(chain):
    b = _num(len(chain))
    for tok in chain:
        cid, props = CODER_BYTES[tok], _coder_props(tok)
        b += bytes([len(cid) | (0x20 if props is not None else 0)]) + cid
        if props is not None:
            b += _num(len(props)) + props
    for i in range(len(chain) - 1):              # bind pairs (inIndex, outIndex): coder i reads what coder i+1 writes
        b += _num(i) + _num(i + 1)
    return b


def _encode_chain(chain, data, rng):
    """Packed bytes for `data` under a coder chain (the reader applies the coders last-to-first)."""
    if any(t in ("AES", "AESX") for t in chain):
        return _rb(rng, ((len(data) + 15) // 16) * 16 or 16)
    out = data
    for tok in chain:                      # first coder = last applied by the reader = first applied by the writer
        if tok == "LZMA":
            out = lzma.compress(out, format=lzma.FORMAT_RAW, filters=[_LZMA1])
        elif tok == "LZMA2":
            out = lzma.compress(out, format=lzma.FORMAT_RAW, filters=[_LZMA2])
    return out


def _sevenz_file(packed, header):
    sh = struct.pack("<QQI", len(packed), len(header), zlib.crc32(header) & 0xFFFFFFFF)
    return b"7z\xbc\xaf\x27\x1c\x00\x04" + struct.pack("<I", zlib.crc32(sh) & 0xFFFFFFFF) + sh + packed + header


def build_sevenz(c, rng):
    files = [(f"m{n}.txt", f"zq{n:04d}x seven {n}\n".encode()) for n in range(1, len(c["folders"]) + 1)]
    packs = [_encode_chain(ch, d, rng) for ch, (_, d) in zip(c["folders"], files)]
    h = b"\x01\x04"
    h += b"\x06" + _num(0) + _num(len(packs)) + b"\x09" + b"".join(_num(len(p)) for p in packs) + b"\x00"
    h += b"\x07\x0b" + _num(len(packs)) + b"\x00" + b"".join(_folder_bytes(ch) for ch in c["folders"])
    h += b"\x0c" + b"".join(_num(len(d)) * len(ch) for ch, (_, d) in zip(c["folders"], files)) + b"\x00"
    h += b"\x08\x0d" + b"".join(_num(1) for _ in packs) + b"\x00"
    h += b"\x00"
    names = b"".join(n.encode("utf-16-le") + b"\0\0" for n, _ in files)
    h += b"\x05" + _num(len(files)) + b"\x11" + _num(len(names) + 1) + b"\x00" + names + b"\x00"
    h += b"\x00"
    packed = b"".join(packs)
    if c["hdr"] == "plain":
        return _sevenz_file(packed, h)
    # 7-Zip lists the main coder first: LZMA (its output is the header), then 7zAES (its input is the packed stream)
    chain = {"lzma": ["LZMA"], "aes": ["AES"], "lzma+aes": ["LZMA", "AES"]}[c["hdr"]]
    hp = _encode_chain(chain, h, rng)
    eh = b"\x17\x06" + _num(len(packed)) + _num(1) + b"\x09" + _num(len(hp)) + b"\x00"
    eh += b"\x07\x0b" + _num(1) + b"\x00" + _folder_bytes(chain) + b"\x0c" + _num(len(h)) * len(chain)
    eh += b"\x0a\x01" + struct.pack("<I", zlib.crc32(h) & 0xFFFFFFFF) + b"\x00"
    eh += b"\x00"
    return _sevenz_file(packed + hp, eh)


class _R:
    def __init__(self, b):
        self.b, self.i = b, 0

    def u8(self):
        self.i += 1
        return self.b[self.i - 1]

    def take(self, n):
        self.i += n
        return self.b[self.i - n:self.i]

    def num(self):
        f = self.u8()
        mask, val = 0x80, 0
        for i in range(8):
            if not f & mask:
                return val | ((f & (mask - 1)) << (8 * i))
            val |= self.u8() << (8 * i)
            mask >>= 1
        return val


def _read_folders(r):
    """After PROP_UNPACK_INFO (0x07): folder coder-id chains; leaves r after the unpack sizes / CRC / END."""
    assert r.u8() == 0x0B
    nf = r.num()
    assert r.u8() == 0
    chains = []
    for _ in range(nf):
        nc = r.num()
        chain, nin, nout = [], 0, 0
        for _ in range(nc):
            fl = r.u8()
            cid = r.take(fl & 0x0F)
            i, o = 1, 1
            if fl & 0x10:
                i, o = r.num(), r.num()
            nin, nout = nin + i, nout + o
            props = r.take(r.num()) if fl & 0x20 else None
            chain.append((cid, props))
        for _ in range(nout - 1):
            r.num(), r.num()
        npacked = nin - (nout - 1)
        if npacked > 1:
            for _ in range(npacked):
                r.num()
        chains.append((chain, nout))
    assert r.u8() == 0x0C
    sizes = [[r.num() for _ in range(no)] for _, no in chains]
    t = r.u8()
    if t == 0x0A:
        alldef = r.u8()
        defined = [True] * nf if alldef else None
        if defined is None:
            bits = r.take((nf + 7) // 8)
            defined = [bool(bits[j // 8] & (0x80 >> (j % 8))) for j in range(nf)]
        for d in defined:
            if d:
                r.take(4)
        t = r.u8()
    assert t == 0
    return [c for c, _ in chains], sizes


def _tok(cid):
    if cid in CODER_TOKEN:
        return CODER_TOKEN[cid]
    return "AESX" if cid[:3] == b"\x06\xf1\x07" else "X:" + cid.hex()


def project_sevenz(data):
    if data[:6] != b"7z\xbc\xaf\x27\x1c":
        return {"kind": "plain"}
    noff, nsize = struct.unpack_from("<QQ", data, 12)
    hdr = data[32 + noff:32 + noff + nsize]
    kind = "plain"
    if hdr[:1] == b"\x17":
        r = _R(hdr)
        r.u8()
        assert r.u8() == 0x06
        ppos, nps = r.num(), r.num()
        psizes = []
        t = r.u8()
        if t == 0x09:
            psizes = [r.num() for _ in range(nps)]
            t = r.u8()
        while t != 0:                                   # skip pack CRCs
            if t == 0x0A:
                if r.u8() == 0:
                    raise ValueError("partial pack crc")
                r.take(4 * nps)
            t = r.u8()
        assert r.u8() == 0x07
        chains, sizes = _read_folders(r)
        toks = [_tok(cid) for cid, _ in chains[0]]
        if any(t in ("AES", "AESX") for t in toks):
            kind = "aes" if len(toks) == 1 else "lzma+aes"
            return {"kind": "sevenz", "hdr": kind, "folders": [], "_opaque": True}
        kind = "lzma"
        packed = data[32 + ppos:32 + ppos + psizes[0]]
        cid, props = chains[0][0]
        if cid == b"\x03\x01\x01":
            d = props[0]
            flt = {"id": lzma.FILTER_LZMA1, "dict_size": max(4096, struct.unpack_from("<I", props, 1)[0]),
                   "lc": d % 9, "lp": (d // 9) % 5, "pb": d // 45}
            hdr = lzma.LZMADecompressor(lzma.FORMAT_RAW, filters=[flt]).decompress(packed, sizes[0][-1])
        elif cid == b"\x00":
            hdr = packed
        else:
            raise ValueError("header coder " + cid.hex())
    r = _R(hdr)
    assert r.u8() == 0x01
    t = r.u8()
    folders = []
    if t == 0x04:
        t = r.u8()
        if t == 0x06:
            r.num()
            nps = r.num()
            t = r.u8()
            if t == 0x09:
                [r.num() for _ in range(nps)]
                t = r.u8()
            while t != 0:
                if t == 0x0A:
                    if r.u8() == 0:
                        raise ValueError("partial pack crc")
                    r.take(4 * nps)
                t = r.u8()
            t = r.u8()
        if t == 0x07:
            chains, _ = _read_folders(r)
            folders = [[_tok(cid) for cid, _ in ch] for ch in chains]
    return {"kind": "sevenz", "hdr": kind, "folders": folders}


# --------------------------------------------------------------------------- epub
ENC_NS = "http://www.w3.org/2001/04/xmlenc#"
FONT_ALGS = {"fonts-idpf": "http://www.idpf.org/2008/embedding", "fonts-adobe": "http://ns.adobe.com/pdf/enc#RC"}


def _enc_xml(kind, target):
    def ed(alg, uri):
        return (f'<enc:EncryptedData xmlns:enc="{ENC_NS}"><enc:EncryptionMethod Algorithm="{alg}"/>'
                f'<enc:CipherData><enc:CipherReference URI="{uri}"/></enc:CipherData></enc:EncryptedData>')
    head = '<?xml version="1.0" encoding="UTF-8"?><encryption xmlns="urn:oasis:names:tc:opendocument:xmlns:container">'
    if kind == "empty":
        return head + "</encryption>"
    if kind == "content":
        return head + ed(ENC_NS + "aes128-cbc", target) + "</encryption>"
    if kind in FONT_ALGS:
        return head + ed(FONT_ALGS[kind], "OEBPS/fonts/f1.otf") + "</encryption>"
    if kind == "malformed":
        return head + "<enc:EncryptedData><unclosed"
    raise ValueError(kind)


def build_epub(c, rng):
    from . import docrun
    from .writers import web
    doc = docrun.rich_doc("epub")
    extra = {}
    if c["encxml"] != "absent":
        extra["META-INF/encryption.xml"] = _enc_xml(c["encxml"], "OEBPS/ch1.xhtml").encode()
        if c["encxml"] in FONT_ALGS:
            extra["OEBPS/fonts/f1.otf"] = _rb(rng, 64)
    if c["rights"]:
        extra["META-INF/rights.xml"] = (b'<?xml version="1.0"?><adept:rights xmlns:adept="http://ns.adobe.com/adept">'
                                        b"<licenseToken><user>urn:uuid:0</user></licenseToken></adept:rights>")
    return web.write_epub({"chapters": [doc], "props": doc.get("props"), "extra_files": extra})


def project_epub(data):
    try:
        zf = zipfile.ZipFile(io.BytesIO(data))
    except zipfile.BadZipFile:
        return {"kind": "plain"}
    names = set(zf.namelist())
    kind = "absent"
    if "META-INF/encryption.xml" in names:
        try:
            root = ET.fromstring(zf.read("META-INF/encryption.xml"))
            algs = {m.get("Algorithm") for e in root.iter("{%s}EncryptedData" % ENC_NS)
                    for m in e.iter("{%s}EncryptionMethod" % ENC_NS)}
            n_ed = len(list(root.iter("{%s}EncryptedData" % ENC_NS)))
            if n_ed == 0:
                kind = "empty"
            elif algs and algs <= {FONT_ALGS["fonts-idpf"]}:
                kind = "fonts-idpf"
            elif algs and algs <= set(FONT_ALGS.values()):
                kind = "fonts-adobe"
            else:
                kind = "content"
        except ET.ParseError:
            kind = "malformed"
    return {"kind": "epub", "encxml": kind, "rights": "META-INF/rights.xml" in names}


# --------------------------------------------------------------------------- fixtures
EXT_KIND = {"docx": "ooxml", "docm": "ooxml", "xlsx": "ooxml", "xlsm": "ooxml", "pptx": "ooxml", "pptm": "ooxml",
            "ppt": "ppt", "xls": "xls", "doc": "doc", "odt": "odf", "ods": "odf", "odp": "odf", "odg": "odf",
            "odf": "odf", "pdf": "pdf", "zip": "zip", "7z": "sevenz", "epub": "epub"}


def project_fixture(path: Path, named: bool):
    """Abstract container of a repository fixture (structure read from the bytes; for a PDF the one thing
    the bytes do not show -- whether the user password is empty -- is taken from the fixture's name; owner
    password: "distinct", it plays no part in Class)."""
    ext = path.suffix.lower().lstrip(".")
    data = path.read_bytes()
    kind = EXT_KIND.get(ext)
    if kind is None or not data:
        return {"kind": "plain"}
    if kind == "ooxml":
        return project_ooxml(data)
    if kind == "pdf":
        return project_pdf(data, user_empty=not named)
    c = {"ppt": project_ppt, "xls": project_xls, "doc": project_doc, "odf": project_odf, "zip": project_zip,
         "sevenz": project_sevenz, "epub": project_epub}[kind](data)
    c.pop("_opaque", None)
    return c


# --------------------------------------------------------------------------- self-check signatures
def signature(c):
    """The features of an abstract container that a faithful concretisation must preserve."""
    k = c["kind"]
    if k == "ooxml":
        return (k, c["wrap"], tuple(sorted(c["names"])))
    if k == "ppt":
        return (k, tuple(sorted(c["names"])), c["token"])
    if k == "xls":
        recs = list(c["recs"])
        if "OVR" in recs:                        # what lies behind an overrunning record is payload
            recs = recs[:recs.index("OVR") + 1]
        return (k, c["stream"], tuple(recs))
    if k == "doc":
        return (k, c["magic"], c["fEncrypted"], c["fObfuscated"])
    if k == "odf":
        return (k, c["enc"], c["prefix"], c["doctype"], c["prolog"], c["order"], tuple(sorted({e["name"] for e in c["entries"] if e["name"] != "content.xml"})),
                sum(1 for e in c["entries"] if e["ed"]) > 0)
    if k == "pdf":
        return (k, c["alg"])
    if k == "zip":
        # the CRC of a member flagged as encrypted cannot be checked without the password
        return (k, tuple((m["fc"], m["fl"], m["dir"], "none" if m["fc"] and m["err"] == "badcrc" else m["err"])
                         for m in c["members"]))
    if k == "sevenz":
        if c["hdr"] in ("aes", "lzma+aes"):
            return (k, c["hdr"])
        return (k, c["hdr"], tuple(tuple(f) for f in c["folders"]))
    if k == "epub":
        return (k, c["encxml"], c["rights"])
    return (k,)
