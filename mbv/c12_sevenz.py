"""C12 helper: a minimal 7z *writer* (single folder, one coder) and a padding tool.

Only what C12 needs: a plain (non-encoded) header, ONE folder holding n files (solid), coder Copy, LZMA
or LZMA2, declared sizes under the caller's control (so that the declared size can differ from what the
stream really expands to), and `pad_to(archive, size)` that grows a valid archive to an exact byte size
by inserting zeros between the packed streams and the end header (NextHeaderOffset and the start-header
CRC are recomputed), so the archive stays valid at exactly limit-1 / limit / limit+1 bytes.
The layout follows 7zFormat.txt of the 7-Zip SDK.  Independent of mbv/c10_sevenz.py (other owner)."""
from __future__ import annotations

import lzma
import struct
import zlib

MAGIC = b"7z\xbc\xaf\x27\x1c"


def num(v: int) -> bytes:
    """7z variable-length number."""
    for extra in range(0, 8):
        if v < (1 << (8 * extra + 7 - extra)):
            first = (0xFF << (8 - extra)) & 0xFF
            return bytes([first | (v >> (8 * extra))]) + (v & ((1 << (8 * extra)) - 1)).to_bytes(extra, "little")
    return b"\xff" + v.to_bytes(8, "little")


def lzma1_raw(data: bytes, dict_size: int = 1 << 16):
    """-> (props5, raw LZMA1 stream without end marker semantics the reader needs)."""
    filt = {"id": lzma.FILTER_LZMA1, "preset": 1, "dict_size": dict_size, "lc": 3, "lp": 0, "pb": 2}
    alone = lzma.compress(data, format=lzma.FORMAT_ALONE, filters=[filt])
    return alone[:5], alone[13:]


def lzma2_raw(data: bytes, dict_size: int = 1 << 16):
    """-> (props1, raw LZMA2 stream)."""
    filt = {"id": lzma.FILTER_LZMA2, "preset": 1, "dict_size": dict_size}
    raw = lzma.compress(data, format=lzma.FORMAT_RAW, filters=[filt])
    # dictionary-size property byte: smallest p with size(p) >= dict_size
    p = 0
    while p < 40:
        size = (1 << 12) if p == 0 else (2 | (p & 1)) << (p // 2 + 11)
        if size >= dict_size:
            break
        p += 1
    return bytes([p]), raw


def write_7z(files, method: str = "lzma2", declared=None, folder_declared=None) -> bytes:
    """files: [(name, bytes)], all in ONE folder in this order.
    declared: optional list of declared per-file sizes (default: the real lengths);
    folder_declared: optional declared folder unpack size (default: sum of `declared`)."""
    blob = b"".join(d for _, d in files)
    sizes = list(declared) if declared is not None else [len(d) for _, d in files]
    total = folder_declared if folder_declared is not None else sum(sizes)
    if method == "copy":
        packed, coder = blob, bytes([0x01]) + b"\x00"
    elif method == "lzma":
        props, packed = lzma1_raw(blob)
        coder = bytes([0x23]) + b"\x03\x01\x01" + num(len(props)) + props
    elif method == "lzma2":
        props, packed = lzma2_raw(blob)
        coder = bytes([0x21]) + b"\x21" + num(len(props)) + props
    else:
        raise ValueError(method)
    n = len(files)
    pack_info = b"\x06" + num(0) + num(1) + b"\x09" + num(len(packed)) + b"\x00"
    unpack_info = (b"\x07" + b"\x0b" + num(1) + b"\x00" + num(1) + coder
                   + b"\x0c" + num(total) + b"\x00")
    sub = b"\x08" + b"\x0d" + num(n)
    if n > 1:
        sub += b"\x09" + b"".join(num(s) for s in sizes[:-1])
    sub += b"\x00"
    streams = b"\x04" + pack_info + unpack_info + sub + b"\x00"
    names = b"\x00" + b"".join(nm.encode("utf-16-le") + b"\x00\x00" for nm, _ in files)
    files_info = b"\x05" + num(n) + b"\x11" + num(len(names)) + names + b"\x00"
    header = b"\x01" + streams + files_info + b"\x00"
    return _assemble(packed, header)


def write_7z_declared(name: str, stream_of: bytes, coder: str, member_size: int, coder_sizes, strip_end: bool = False) -> bytes:
    """One folder, ONE member `name`, where what the header DECLARES and what the packed stream YIELDS are chosen
    independently.
      stream_of    the bytes the packed stream really expands to
      coder        "copy" | "lzma" | "lzma2" | "bcj+lzma" | "bcj+lzma2"  (BCJ first, then the compressor, as 7-Zip writes)
      member_size  the size the member is listed with (what the per-member guard sees)
      coder_sizes  the declared unpack size of every coder of the folder, in coder order
      strip_end    LZMA2 only: drop the final end-of-stream byte of the packed stream
    LZMA (LZMA1) streams written by Python's lzma always end with an end marker."""
    inner = coder.split("+")[-1]
    packed, cdesc = _coder(inner, stream_of)
    if strip_end:
        if inner != "lzma2" or packed[-1:] != b"\x00":
            raise ValueError("no LZMA2 end byte to strip")
        packed = packed[:-1]
    if coder.startswith("bcj+"):
        coders = num(2) + bytes([0x04]) + b"\x03\x03\x01\x03" + cdesc + num(1) + num(0)    # bind pair: in 0 <- out 1
    else:
        coders = num(1) + cdesc
    if len(coder_sizes) != (2 if coder.startswith("bcj+") else 1):
        raise ValueError("one declared size per coder")
    h = b"\x01\x04"
    h += b"\x06" + num(0) + num(1) + b"\x09" + num(len(packed)) + b"\x00"
    h += b"\x07\x0b" + num(1) + b"\x00" + coders + b"\x0c" + b"".join(num(n) for n in coder_sizes) + b"\x00"
    h += b"\x08\x0d" + num(1) + b"\x00" + b"\x00"
    names = b"\x00" + name.encode("utf-16-le") + b"\x00\x00"
    h += b"\x05" + num(1) + b"\x11" + num(len(names)) + names + b"\x00" + b"\x00"
    # the member's size is the last coder size unless substream sizes say otherwise; with one substream the reader
    # takes the folder's size, so `member_size` must equal coder_sizes[-1]
    if member_size != coder_sizes[-1]:
        raise ValueError("with one member per folder its size is the last declared coder size")
    return _assemble(packed, h)


def _bitvec(bits) -> bytes:
    out = bytearray((len(bits) + 7) // 8)
    for i, b in enumerate(bits):
        if b:
            out[i // 8] |= 0x80 >> (i % 8)
    return bytes(out)


def _coder(method: str, blob: bytes):
    if method == "copy":
        return blob, bytes([0x01]) + b"\x00"
    if method == "lzma":
        props, packed = lzma1_raw(blob)
        return packed, bytes([0x23]) + b"\x03\x01\x01" + num(len(props)) + props
    if method == "lzma2":
        props, packed = lzma2_raw(blob)
        return packed, bytes([0x21]) + b"\x21" + num(len(props)) + props
    raise ValueError(method)


def write_7z_layout(entries, method: str = "lzma2") -> bytes:
    """entries, in archive order: (name, data, kind, folder)
         kind "reg": data bytes, folder >= 1 (entries of one folder are stored solid, folders in increasing order)
         kind "empty" / "anti": an entry without data stream flagged as empty FILE (anti: also flagged anti)
         kind "dir": an entry without data stream that is not an empty file
    Several folders = a non-solid archive: one pack stream and one coder per folder."""
    folders = sorted({f for _, _, k, f in entries if k == "reg"})
    packs, coders, fsizes, counts, subsizes = [], [], [], [], []
    for f in folders:
        datas = [d for _, d, k, ff in entries if k == "reg" and ff == f]
        packed, coder = _coder(method, b"".join(datas))
        packs.append(packed)
        coders.append(coder)
        fsizes.append(sum(len(d) for d in datas))
        counts.append(len(datas))
        subsizes += [len(d) for d in datas[:-1]]
    h = b"\x01"
    if folders:
        h += b"\x04"
        h += b"\x06" + num(0) + num(len(packs)) + b"\x09" + b"".join(num(len(p)) for p in packs) + b"\x00"
        h += b"\x07\x0b" + num(len(folders)) + b"\x00" + b"".join(num(1) + c for c in coders)
        h += b"\x0c" + b"".join(num(n) for n in fsizes) + b"\x00"
        h += b"\x08\x0d" + b"".join(num(c) for c in counts)
        if subsizes:
            h += b"\x09" + b"".join(num(n) for n in subsizes)
        h += b"\x00" + b"\x00"
    n = len(entries)
    h += b"\x05" + num(n)
    streamless = [k != "reg" for _, _, k, _ in entries]
    if any(streamless):
        vec = _bitvec(streamless)
        h += b"\x0e" + num(len(vec)) + vec
        kinds = [k for _, _, k, _ in entries if k != "reg"]
        if any(k in ("empty", "anti") for k in kinds):
            vec = _bitvec([k in ("empty", "anti") for k in kinds])
            h += b"\x0f" + num(len(vec)) + vec
        if any(k == "anti" for k in kinds):
            vec = _bitvec([k == "anti" for k in kinds])
            h += b"\x10" + num(len(vec)) + vec
    names = b"\x00" + b"".join(nm.encode("utf-16-le") + b"\x00\x00" for nm, _, _, _ in entries)
    h += b"\x11" + num(len(names)) + names + b"\x00" + b"\x00"
    return _assemble(b"".join(packs), h)


def _assemble(body: bytes, header: bytes) -> bytes:
    start = struct.pack("<QQI", len(body), len(header), zlib.crc32(header) & 0xFFFFFFFF)
    return MAGIC + b"\x00\x04" + struct.pack("<I", zlib.crc32(start) & 0xFFFFFFFF) + start + body + header


def pad_to(archive: bytes, size: int) -> bytearray:
    """Grow a valid archive to exactly `size` bytes (zeros between packed streams and end header)."""
    off, hlen, hcrc = struct.unpack("<QQI", archive[12:32])
    body, header = archive[32:32 + off], archive[32 + off:32 + off + hlen]
    pad = size - len(archive)
    if pad < 0 or len(header) != hlen or 32 + off + hlen != len(archive):
        raise ValueError("cannot pad this archive")
    out = bytearray(size)
    start = struct.pack("<QQI", off + pad, hlen, hcrc)
    out[:32] = MAGIC + archive[6:8] + struct.pack("<I", zlib.crc32(start) & 0xFFFFFFFF) + start
    out[32:32 + off] = body
    out[size - hlen:] = header
    return out
