"""Run TLC (tla2tools 1.8) and parse what it reports.

Every run gets a private scratch directory under /verif/.scratch (removed by the
caller's Scratch context), the cfg is written there, the spec is read from /verif/specs.
"""
from __future__ import annotations

import os
import re
import shutil
import subprocess
import tempfile
import time
import uuid
from dataclasses import dataclass, field
from pathlib import Path
from typing import Optional

from . import SCRATCH_ROOT, SPECS

JAR = "/opt/veriftools/tla/tla2tools.jar:/opt/veriftools/tla/CommunityModules-deps.jar"


class MachineryError(RuntimeError):
    """TLC crashed / spec does not parse / binding vanished: exit code 2, never 0 or 1."""


class Scratch:
    """Private scratch dir under /verif/.scratch, removed on exit."""

    def __init__(self, tag: str = "run"):
        SCRATCH_ROOT.mkdir(exist_ok=True)
        self.path = Path(tempfile.mkdtemp(prefix=f"{tag}-", dir=SCRATCH_ROOT))

    def __enter__(self):
        return self.path

    def __exit__(self, *a):
        if not os.environ.get("MBV_KEEP_SCRATCH"):
            shutil.rmtree(self.path, ignore_errors=True)


@dataclass
class TLCResult:
    rc: int
    output: str
    wall_s: float
    generated: int = 0
    distinct: int = 0
    depth: int = 0
    ok: bool = False                      # "No error has been found"
    violated: Optional[str] = None        # name of violated invariant / property, "Deadlock", ...
    coverage: dict = field(default_factory=dict)   # action name -> (distinct, generated)
    printed: list = field(default_factory=list)    # raw lines that look like PrintT values
    trace: list = field(default_factory=list)      # counterexample states (text blocks)
    cmd: str = ""

    def printed_values(self):
        from .tlaval import parse, ParseError
        out = []
        for ln in self.printed:
            try:
                out.append(parse(ln))
            except ParseError:
                pass
        return out


_SUMMARY = re.compile(r"(\d+) states generated, (\d+) distinct states found, (\d+) states left on queue")
_SIMSUM = re.compile(r"The number of states generated: (\d+)")
_DEPTH = re.compile(r"The depth of the complete state graph search is (\d+)")
_INV = re.compile(r"Error: Invariant (\S+) is violated")
_ACTP = re.compile(r"Error: Action property (\S+) is violated")
_COV = re.compile(r"^<(\w+) line \d+, col \d+ to line \d+, col \d+ of module (\w+)>: (\d+):(\d+)", re.M)


def run_tlc(
    spec: str | Path,
    cfg: str,
    *,
    scratch: Path,
    workers: int | str = 8,
    timeout: int = 900,
    dump: Optional[Path] = None,
    dump_dot: Optional[Path] = None,
    simulate: Optional[str] = None,      # e.g. "num=200" or "file=/x/tr,num=200"
    depth: Optional[int] = None,
    seed: Optional[int] = None,
    coverage: bool = False,
    deadlock_check: bool = False,
    env: Optional[dict] = None,
    dfs_queue: bool = False,
    heap: str = "4g",
    expect_fail: bool = False,
    keep_going: bool = False,
) -> TLCResult:
    """Run TLC on specs/<spec>.tla with the given cfg text."""
    spec = Path(spec)
    if not spec.is_absolute():
        spec = SPECS / spec
    if spec.suffix != ".tla":
        spec = spec.with_suffix(".tla")
    if not spec.exists():
        raise MachineryError(f"spec not found: {spec}")
    scratch.mkdir(parents=True, exist_ok=True)
    tag = f"{spec.stem}-{uuid.uuid4().hex[:12]}"
    cfg_path = scratch / f"{tag}.cfg"
    cfg_path.write_text(cfg)
    meta = scratch / f"{tag}.meta"
    cmd = ["java", "-XX:+UseParallelGC", f"-Xmx{heap}", "-Xss64m"]
    if dfs_queue:
        cmd.append("-Dtlc2.tool.queue.IStateQueue=StateDeque")
    cmd += ["-cp", JAR, "tlc2.TLC", "-config", str(cfg_path), "-metadir", str(meta),
            "-noGenerateSpecTE", "-workers", str(workers)]
    if not deadlock_check:
        cmd.append("-deadlock")
    if keep_going:
        cmd.append("-continue")
    if coverage:
        cmd += ["-coverage", "1"]
    if dump is not None:
        cmd += ["-dump", str(dump)]
    if dump_dot is not None:
        cmd += ["-dump", "dot,actionlabels", str(dump_dot)]
    if simulate is not None:
        cmd += ["-simulate", simulate]
    if depth is not None:
        cmd += ["-depth", str(depth)]
    if seed is not None:
        cmd += ["-seed", str(seed)]
    cmd.append(str(spec))
    e = dict(os.environ)
    e.pop("JAVA_TOOL_OPTIONS", None)
    if env:
        e.update({k: str(v) for k, v in env.items()})
    t0 = time.time()
    try:
        p = subprocess.run(cmd, cwd=str(spec.parent), env=e, capture_output=True, text=True,
                           timeout=timeout, errors="replace")
    except subprocess.TimeoutExpired as ex:
        subprocess.run(["pkill", "-f", str(cfg_path)], capture_output=True)
        raise MachineryError(f"TLC timeout after {timeout}s on {spec.name}") from ex
    finally:
        shutil.rmtree(meta, ignore_errors=True)
        for junk in spec.parent.glob("*_TTrace_*"):
            junk.unlink(missing_ok=True)
    out = p.stdout + p.stderr
    r = TLCResult(rc=p.returncode, output=out, wall_s=time.time() - t0, cmd=" ".join(cmd))
    ms = _SUMMARY.findall(out)
    if ms:
        r.generated, r.distinct = int(ms[-1][0]), int(ms[-1][1])
    else:
        m = _SIMSUM.search(out)
        if m:
            r.generated = r.distinct = int(m.group(1))
    m = _DEPTH.search(out)
    if m:
        r.depth = int(m.group(1))
    r.ok = "No error has been found" in out or (simulate is not None and p.returncode == 0)
    m = _INV.search(out) or _ACTP.search(out)
    if m:
        r.violated = m.group(1)
    elif "Deadlock reached" in out:
        r.violated = "Deadlock"
    elif "Temporal properties were violated" in out:
        r.violated = "Temporal"
    elif "Assumption" in out and "is false" in out:
        r.violated = "Assumption"
    for a, mod, d, g in _COV.findall(out):
        r.coverage[a] = (int(d), int(g))
    for ln in out.splitlines():
        s = ln.strip()
        if s.startswith("<<") or (s.startswith("[") and "|->" in s) or s.startswith('"'):
            r.printed.append(s)
    if r.violated:
        blocks = re.split(r"^State \d+: .*$", out, flags=re.M)
        r.trace = [b.strip() for b in blocks[1:]]
    # machinery failures: parse errors, evaluation errors, java crashes
    bad = (not r.ok and r.violated is None) or p.returncode in (150, 151, 152, 153, 1, 255)
    if "Parsing or semantic analysis failed" in out or "***Parse Error***" in out:
        bad = True
    if bad and not (expect_fail and r.violated):
        lines = out.splitlines()
        k = next((i for i, ln in enumerate(lines) if ln.startswith("Error:") or "***Parse Error***" in ln
                  or "Semantic errors" in ln), None)
        head = "\n".join(lines[k:k + 40] if k is not None else lines[:60])
        raise MachineryError(f"TLC failed on {spec.name} (rc={p.returncode}):\n{head}")
    return r


def sany(spec: Path) -> None:
    p = subprocess.run(["java", "-cp", JAR, "tla2sany.SANY", str(spec)], cwd=str(spec.parent),
                       capture_output=True, text=True)
    if p.returncode != 0 or "Semantic errors" in p.stdout or "Parse Error" in p.stdout \
            or "Fatal errors" in p.stdout:
        raise MachineryError(f"SANY rejects {spec.name}:\n{p.stdout[-2000:]}")


def run_tlc_many(jobs, max_parallel: int = 4):
    """Run independent TLC jobs concurrently (JVM start-up dominates the small ones).
    jobs: list of (spec, cfg, kwargs) -> list of TLCResult in the same order; the first exception is re-raised."""
    from concurrent.futures import ThreadPoolExecutor
    with ThreadPoolExecutor(max_parallel) as ex:
        futs = [ex.submit(run_tlc, spec, cfg, **kw) for spec, cfg, kw in jobs]
        return [f.result() for f in futs]
