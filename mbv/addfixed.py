"""python -m mbv.addfixed PROP COMMIT "what failed" : append a fixed: entry to known_findings.json"""
import json, sys
from . import VERIF
f = VERIF / "known_findings.json"
d = json.loads(f.read_text())
p, c, w = sys.argv[1], sys.argv[2], sys.argv[3]
n = len(d["findings"]) + 1
d["findings"].append({"id": f"FX-{p}-{n:02d}", "property": p, "status": "fixed", "deviation": sys.argv[4] if len(sys.argv) > 4 else "",
                      "domain": "", "where": "", "witness": w, "commit": c, "line": f"fixed: property={p} {c} {w}"})
f.write_text(json.dumps(d, indent=1))
print("added", p, c)
