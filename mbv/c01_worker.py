"""C01 worker process + the bounded pool that drives it.

Worker (python -m mbv.c01_worker serve <dir>): imports the library from $SP2T_REPO, installs the
recorder of c01_monitor on the layer functions, then executes one job per JSON line on stdin and answers
with one JSON line.  Resource limits: RLIMIT_AS, RLIMIT_CPU (soft limit moved forward per job), private
TMPDIR inside the check's scratch directory.  The pool kills a worker whose job exceeds its wall budget
(20 s + 2 s/MB by default) and reports that job as a Timeout event; a worker that disappears is a
WorkerDied event.  SurfaceTrace has no action for either.
"""
from __future__ import annotations

import io
import json
import os
import select
import signal
import subprocess
import sys
import threading
import time
from pathlib import Path

from . import PY, VERIF

AS_LIMIT = 3 << 30
CONCRETE = {
    "KeyError": lambda: KeyError("c01"),
    "ValueError": lambda: ValueError("c01"),
    "struct.error": lambda: __import__("struct").error("c01"),
    "BadZipFile": lambda: __import__("zipfile").BadZipFile("c01"),
    "UnicodeDecodeError": lambda: UnicodeDecodeError("utf-8", b"\xff", 0, 1, "c01"),
    "RecursionError": lambda: RecursionError("c01"),
    "OSError": lambda: OSError(5, "c01"),
    "AttributeError": lambda: AttributeError("c01"),
    "zlib.error": lambda: __import__("zlib").error("c01"),
    "LZMAError": lambda: __import__("lzma").LZMAError("c01"),
    "MemoryError": lambda: MemoryError("c01"),
    "TypeError": lambda: TypeError("c01"),
    "IndexError": lambda: IndexError("c01"),
    "NotImplementedError": lambda: NotImplementedError("c01"),
    "EOFError": lambda: EOFError("c01"),
    "TarError": lambda: __import__("tarfile").ReadError("c01"),
}
OTHER_CLASSES = ["KeyError", "ValueError", "struct.error", "BadZipFile", "UnicodeDecodeError", "RecursionError",
                 "OSError", "AttributeError", "zlib.error", "LZMAError", "MemoryError"]
FAMILY_CLASSES = {"Failed": "ExtractionFailedError", "Encrypted": "ExtractionFileEncryptedError",
                  "ZipBomb": "ExtractionZipBombError", "TooLarge": "ExtractionFileTooLargeError",
                  "NotSupported": "ExtractionFileFormatNotSupportedError", "Legacy": "LegacyMicrosoftParsingError",
                  "Base": "ExtractionError"}


# ===================================================================================== worker side
class _NotJson:
    pass


class StdoutProxy(io.TextIOBase):
    """Installed as sys.stdout BEFORE the library (and xlrd, pypdf, ...) is imported, and never replaced: whoever
    captured `sys.stdout` at import time (a default argument like xlrd's `logfile=sys.stdout`) still writes through
    it.  Writes go to the current target; during a CLI run every write that does not come from a frame of
    sharepoint2text/cli.py is remembered as FOREIGN (a third-party reader talking on the CLI's result channel)."""

    def __init__(self, idle_target):
        self._idle = idle_target
        self.target = idle_target
        self.owner = None
        self.foreign = []
        self.own_chars = 0

    encoding = "utf-8"
    errors = "strict"

    def begin(self, target, cli_file):
        self.target, self.owner, self.foreign, self.own_chars = target, os.path.realpath(cli_file), [], 0

    def end(self):
        self.target, self.owner = self._idle, None

    def writable(self):
        return True

    def isatty(self):
        return False

    def write(self, s_):
        own = False
        if self.owner is not None and s_:
            try:
                f = sys._getframe(1)
                fn = os.path.realpath(f.f_code.co_filename)
                if fn != self.owner:
                    if len(self.foreign) < 5:
                        self.foreign.append(f"{os.path.basename(fn)}:{f.f_code.co_name}: {s_[:60]!r}")
                else:
                    own = True
            except ValueError:
                pass
        r = self.target.write(s_)          # may raise (strict encoding): then nothing of s_ was written
        if own:
            self.own_chars += len(s_)
        return r

    def flush(self):
        try:
            self.target.flush()
        except ValueError:
            pass


PROXY = None


class Worker:
    def __init__(self, wdir):
        import resource
        self.resource = resource
        self.wdir = Path(wdir)
        self.wdir.mkdir(parents=True, exist_ok=True)
        (self.wdir / "tmp").mkdir(exist_ok=True)
        os.environ["TMPDIR"] = str(self.wdir / "tmp")
        import tempfile
        tempfile.tempdir = str(self.wdir / "tmp")
        try:
            resource.setrlimit(resource.RLIMIT_AS, (AS_LIMIT, AS_LIMIT))
            resource.setrlimit(resource.RLIMIT_CORE, (0, 0))
        except Exception:
            pass
        import logging
        import warnings
        warnings.simplefilter("ignore")
        # host logging configuration: records go to a handler, not to logging.lastResort (= stderr); third-party
        # warnings are filtered.  What is then on stderr during cli.main is what the CLI itself wrote.
        logging.getLogger().addHandler(logging.NullHandler())
        from .repo import activate
        activate()
        import sharepoint2text
        from sharepoint2text import cli
        from sharepoint2text.parsing import exceptions as X
        from sharepoint2text.parsing.extractors import data_types
        from . import c01_layers, c01_monitor
        self.sp, self.cli, self.dt = sharepoint2text, cli, data_types
        self.fam = {n: getattr(X, n) for n in list(FAMILY_CLASSES.values())}
        self.layers = c01_layers.discover()
        self.by_name = {lf.name: lf for lf in self.layers}
        self.by_kind = {lf.k: lf for lf in self.layers if lf.t == "Extractor"}
        self.helpers = {f.__name__: f for f in c01_layers.cli_helpers()}
        self.rec = c01_monitor.Recorder(self.layers, self.fam, extra_line_codes=[f.__code__ for f in self.helpers.values()])
        # progress monitor: every `while` loop of the library (modules imported so far + the lazily imported extractors)
        import importlib
        from sharepoint2text.parsing import router
        for _ft, (mod, _fn) in router._EXTRACTOR_REGISTRY.items():
            importlib.import_module(mod)
        pkg = os.path.dirname(os.path.abspath(sharepoint2text.__file__)) + os.sep
        found = c01_monitor.find_while_loops(pkg)
        self.rec.loops = {id(c): ls for c, ls in found.items()}
        self.rec.loop_codes = {id(c): c for c in found}
        self.LoopOverrun = c01_monitor.LoopOverrun
        self.rec.install(line_events=False)
        self.classify = lambda e: c01_monitor.classify(e, self.fam)
        self.archive_mod = __import__(c01_layers.ARCHIVE_MOD, fromlist=["x"])
        self.nfile = 0

    # ---------------------------------------------------------------- input construction
    def materialise(self, job):
        from . import c01_mutators as M
        src = job["src"]
        data = M.seed_bytes(src["seed"]) if "seed" in src else bytes.fromhex(src["hex"])
        other = M.seed_bytes(src["other"]) if src.get("other") else b""
        for spec in src.get("muts", []):
            data = M.mutate(data, spec, other)
        return data

    def _file(self, name, data):
        self.nfile += 1
        d = self.wdir / f"f{self.nfile % 50}"
        d.mkdir(exist_ok=True)
        p = d / name
        p.write_bytes(data)
        return str(p)

    def make_exc(self, name):
        if name in CONCRETE:
            return CONCRETE[name]
        cls = self.fam[FAMILY_CLASSES[name]]
        if name == "TooLarge":
            return lambda: cls("c01", max_size=1, actual_size=2)
        if name == "NotSupported":
            return lambda: cls("c01")
        return lambda: cls("c01")

    # ---------------------------------------------------------------- entry points
    def call(self, job, data):
        """-> ("gen", iterator) | ("cli", argv)"""
        from . import c01_mutators as M
        entry, kind = job["entry"], job["kind"]
        ext = job.get("ext") or M.EXT[kind]
        nm = job.get("name") or f"in.{ext}"
        mm = int(job.get("members", 1))
        arch = job.get("arch", "zip")
        if entry in ("member", "rfmember", "climember", "attmember"):
            names = job.get("member_names") or [f"m{i + 1}.{ext}" for i in range(mm)]
            payload = M.build_archive(arch, [(n, data) for n in names]) if not job.get("raw_archive") else data
        if entry == "direct":
            # the failure surface must not depend on the optional path argument: absent / empty / real
            pm = job.get("path_mode", "real")
            if pm == "none":
                return "gen", self.by_kind[kind].func(io.BytesIO(data))
            return "gen", self.by_kind[kind].func(io.BytesIO(data), "" if pm == "empty" else nm)
        if entry == "readfile":
            if "max_file_size" in job:                  # read_file's own guard as an outcome class of the spec
                return "gen", self.sp.read_file(self._file(nm, data), max_file_size=int(job["max_file_size"]))
            return "gen", self.sp.read_file(self._file(nm, data))
        if entry == "member":
            return "gen", self.by_kind["archive"].func(io.BytesIO(payload), f"a.{arch}")
        if entry == "rfmember":
            return "gen", self.sp.read_file(self._file(f"a.{arch}", payload))
        if entry in ("attachment", "attmember"):
            if entry == "attmember":
                atts = [self.dt.EmailAttachment(filename=f"a.{arch}", mime_type="application/zip",
                                                data=io.BytesIO(payload), is_supported_mime_type=True)]
            else:
                atts = [self.dt.EmailAttachment(filename=(job.get("att_names") or [f"att{i + 1}.{ext}"] * mm)[i],
                                                mime_type=job.get("att_mime", "application/octet-stream"),
                                                data=io.BytesIO(data), is_supported_mime_type=True)
                        for i in range(mm)]
            mail = self.dt.EmailContent(from_email=self.dt.EmailAddress(), attachments=atts)
            return "gen", mail.iterate_supported_attachments()
        if entry in ("cli", "climember"):
            path = self._file(nm, data) if entry == "cli" else self._file(f"a.{arch}", payload)
            mode = job.get("cli_mode", "text")
            argv = [path] + {"text": [], "json": ["--json"], "unit": ["--json-unit"],
                             "jsonbin": ["--json", "--binary"]}[mode]
            return "cli", argv
        raise ValueError(entry)

    def run(self, job):
        rec = self.rec
        op = job["op"]
        data = self.materialise(job) if op != "seq" else b""
        # CPU budget of this job (20 s + 2 s/MB of the ACTUAL input): the soft RLIMIT_CPU moves forward
        try:
            # (the witness of an OPEN finding only has to show that it still does not come back: shorter budget)
            soft = int(time.process_time() + float(job.get("cpu_budget", 20.0)) + 2.0 * len(data) / 1e6) + 2
            self.resource.setrlimit(self.resource.RLIMIT_CPU, (soft, self.resource.RLIM_INFINITY))
        except Exception:
            pass
        if op == "oledom":
            from . import c01_mutators as M
            dom = M.ole_vector_evidence(data)
            dom.update(M.pdf_cycle_evidence(data))
            dom.update(M.rtf_run_evidence(data))
            return {"id": job.get("id"), "dom": dom, "ev": [], "size": len(data)}
        if op == "seq":
            return self.run_seq(job)
        if op == "sniff":
            return self.run_sniff(job, data)
        if op == "clisub":
            return self.run_clisub(job, data)
        inject = None
        if op == "inject":
            tg = job["target"]
            code = (self.by_name[tg["fn"]].code if tg["fn"] in self.by_name else self.helpers[tg["fn"]].__code__)
            inject = {"code": code, "line": tg["line"], "ay": tg["ay"], "hit": tg["hit"], "make": self.make_exc(job["exc"])}
        rec.set_line_events(op in ("dry", "inject"))
        poison = bool(job.get("poison"))
        real_ser = self.cli.serialize_extraction
        if poison:
            def ser(obj, **kw):
                d = real_ser(obj, **kw)
                if isinstance(d, dict):
                    d["zz_c01_not_json"] = _NotJson()
                return d
            self.cli.serialize_extraction = ser
        out = {"id": job.get("id")}
        cpu0 = time.process_time()
        so, se = sys.stdout, sys.stderr
        try:
            kind, what = self.call(job, data)
            rec.begin(inject=inject, dry=(op == "dry"))
            # a library loop may iterate linearly in what it walks; decompressed parts are larger than the file
            # (observed on all seeds and ~150k mutants: at most 2.0 iterations per input byte, the RTF stripper)
            rec.loop_bound = 16 * len(data) * max(1, int(job.get("members", 1))) + (1 << 21)
            if kind == "gen":
                n, esc = 0, "Done"
                try:
                    for _ in what:
                        n += 1
                except BaseException as e:          # noqa: the observation IS the escaping type
                    esc = self.classify(e)
                    out["esc_type"] = type(e).__name__
                    out["esc_msg"] = str(e)[:160]
                    c = e.__cause__
                    out["cause"] = type(c).__name__ if c is not None else ""
                ev = rec.end()
                ev.append({"a": "Outcome", "esc": esc, "n": min(n, 3)})
                out["n"] = n
            else:
                # the streams a real process has: UTF-8, stdout strict (a lone surrogate cannot be written), stderr
                # backslashreplace; write-through, so that what was written before a failure is seen
                rawo, rawe = io.BytesIO(), io.BytesIO()
                bo = io.TextIOWrapper(rawo, encoding="utf-8", errors="strict", newline="", write_through=True)
                be = io.TextIOWrapper(rawe, encoding="utf-8", errors="backslashreplace", newline="", write_through=True)
                PROXY.begin(bo, self.cli.__file__)
                sys.stdout, sys.stderr = PROXY, be
                rc, esc = 9, None
                try:
                    rc = self.cli.main(what)
                except BaseException as e:          # noqa
                    esc = type(e).__name__
                finally:
                    foreign = list(PROXY.foreign)
                    PROXY.end()
                    sys.stdout, sys.stderr = so, se
                ev = rec.end()
                for w_ in (bo, be):
                    try:
                        w_.flush()
                    except Exception:
                        pass
                o, e_ = rawo.getvalue().decode("utf-8", "replace"), rawe.getvalue().decode("utf-8", "replace")
                ev.append(cli_out_event(o, e_, rc, foreign))
                out.update(stdout_len=len(o), stderr=e_[-400:], rc=rc, cli_esc=esc, foreign_stdout=foreign)
        finally:
            sys.stdout, sys.stderr = so, se
            self.cli.serialize_extraction = real_ser
        out["ev"] = ev
        out["cpu"] = round(time.process_time() - cpu0, 3)
        out["sha"] = __import__("hashlib").sha256(data).hexdigest()[:16]
        out["size"] = len(data)
        out["detail"] = rec.exc_detail[:6]
        if rec.loop_count:
            (lc, ll), ln_ = max(rec.loop_count.items(), key=lambda kv: kv[1])
            out["loop_max"] = [rec.loop_codes[lc].co_name, ll, ln_]
        if rec.loop_over:
            out["loop_over"] = list(rec.loop_over)
            out["ev"] = [{"a": "LoopOverrun"}]          # like Timeout: the execution was cut off by the monitor
        if rec.problems:
            out["problems"] = rec.problems[:5]
        if op == "inject":
            out["injected"] = rec.injected
        if op == "dry":
            out["targets"] = self.targets(rec.line_log)
        return out

    def run_seq(self, job):
        """a HISTORY of API calls in one process, every call on a fresh thread (call k+1 starts when call k is over):
        whatever an earlier call leaves behind -- a lock, a patched module attribute, a cache -- must not keep a later
        one from coming back.  A call whose thread is BLOCKED (sleeping, no CPU progress) is a Timeout; a spinning one
        hits the CPU budget of the process."""
        import threading
        rec = self.rec
        rec.set_line_events(False)
        steps_out = []
        total = 0
        recycle = False
        for st in job["steps"]:
            data = self.materialise(st)
            total += len(data)
            try:
                soft = int(time.process_time() + 20.0 + 2.0 * len(data) / 1e6) + 2
                self.resource.setrlimit(self.resource.RLIMIT_CPU, (soft, self.resource.RLIM_INFINITY))
            except Exception:
                pass
            box = {}

            def body(st=st, data=data, box=box):
                try:
                    kind, what = self.call(st, data)
                    rec.begin()
                    rec.loop_bound = 16 * len(data) + (1 << 21)
                    n, esc = 0, "Done"
                    try:
                        for _ in what:
                            n += 1
                    except BaseException as e:          # noqa
                        esc = self.classify(e)
                        box["esc_type"] = type(e).__name__
                    ev = rec.end()
                    ev.append({"a": "Outcome", "esc": esc, "n": min(n, 3)})
                    box["ev"] = ev
                    if rec.loop_over:
                        box["ev"] = [{"a": "LoopOverrun"}]
                except BaseException as e:              # noqa
                    box["machinery"] = f"{type(e).__name__}: {e}"
            th = threading.Thread(target=body, daemon=True)
            t0 = time.time()
            th.start()
            blocked = False
            quiet = 0
            last_cpu = None
            while th.is_alive():
                th.join(0.25)
                if not th.is_alive():
                    break
                if time.time() - t0 < 3.0:
                    continue
                try:
                    f = open(f"/proc/self/task/{th.native_id}/stat").read().rsplit(")", 1)[1].split()
                    state, cpu = f[0], int(f[11]) + int(f[12])
                except Exception:
                    state, cpu = "R", None
                if state == "S" and cpu == last_cpu:
                    quiet += 1
                else:
                    quiet = 0
                last_cpu = cpu
                if quiet >= 12:                         # 3 s asleep without a tick of CPU: waiting for something that
                    blocked = True                      # will never come (a lock left behind by an earlier call)
                    break
            if blocked:
                steps_out.append({"ev": [{"a": "Timeout"}], "blocked": True, "size": len(data)})
                recycle = True
                break
            if "machinery" in box:
                return {"id": job.get("id"), "machinery": box["machinery"]}
            steps_out.append({"ev": box.get("ev", []), "esc_type": box.get("esc_type"), "size": len(data)})
        rec.active = False
        return {"id": job.get("id"), "steps": steps_out, "ev": steps_out[-1]["ev"], "size": total, "detail": [],
                "recycle": recycle}

    def sniffers(self):
        """the image-dimension sniffers of the library, by name (binding: exit 2 if the shared ones vanish)."""
        import importlib
        X = "sharepoint2text.parsing.extractors."
        iu = importlib.import_module(X + "util.image_utils")
        out = []
        for n in ("get_jpeg_dimensions", "detect_image_type", "wrap_dib_as_bmp"):
            out.append((f"image_utils.{n}", getattr(iu, n)))
        gid = iu.get_image_dimensions
        for t in ("png", "jpeg", "jpg", "bmp", "gif"):
            out.append((f"image_utils.get_image_dimensions[{t}]", (lambda d, _t=t: gid(d, _t))))
        for m in ("ms_modern.docx_extractor", "ms_modern.pptx_extractor", "ms_modern.xlsx_extractor"):
            f = getattr(importlib.import_module(X + m), "_get_image_pixel_dimensions", None)
            if f is not None:
                out.append((f"{m}._get_image_pixel_dimensions", f))
        return out

    def run_sniff(self, job, data):
        """format A routed to function B, at the level of the image helpers: every sniffer on the image bytes."""
        rec = self.rec
        rec.set_line_events(False)
        rec.begin()
        rec.loop_bound = 16 * len(data) + (1 << 21)
        out = {"id": job.get("id"), "sha": __import__("hashlib").sha256(data).hexdigest()[:16], "size": len(data),
               "detail": []}
        calls = []
        try:
            for name, f in self.sniffers():
                try:
                    f(data)
                    calls.append([name, "ok"])
                except Exception as e:                  # noqa: any Exception here is wrapped by the extractor above
                    calls.append([name, type(e).__name__])
        except BaseException as e:                      # noqa: LoopOverrun
            calls.append(["-", type(e).__name__])
        rec.end()
        out["calls"] = calls
        if rec.loop_over:
            out["loop_over"] = list(rec.loop_over)
            out["ev"] = [{"a": "LoopOverrun"}]
        else:
            out["ev"] = [{"a": "Helper", "n": len(calls)}]
        return out

    def run_clisub(self, job, data):
        """cli.main in a fresh interpreter: real stdout / stderr / exit status; events through a side file."""
        from . import c01_mutators as M
        ext = job.get("ext") or M.EXT[job["kind"]]
        path = self._file(f"in.{ext}", data)
        mode = job.get("cli_mode", "text")
        argv = [path] + {"text": [], "json": ["--json"], "unit": ["--json-unit"], "jsonbin": ["--json", "--binary"]}[mode]
        evf = self.wdir / "clisub-events.json"
        evf.unlink(missing_ok=True)
        budget = 20.0 + 2.0 * len(data) / 1e6
        out = {"id": job.get("id"), "sha": __import__("hashlib").sha256(data).hexdigest()[:16], "size": len(data),
               "detail": []}

        def limits():
            import resource
            resource.setrlimit(resource.RLIMIT_CPU, (int(budget) + 5, int(budget) + 10))
        try:
            p = subprocess.run([PY, "-m", "mbv.c01_worker", "clisub", json.dumps(argv), str(evf)], cwd=str(VERIF),
                               capture_output=True, timeout=max(300.0, budget * 15), preexec_fn=limits)
        except subprocess.TimeoutExpired:
            out["ev"] = [{"a": "Timeout"}]
            out["killed"] = "Timeout"
            return out
        if p.returncode < 0:
            out["ev"] = [{"a": "Timeout" if p.returncode == -signal.SIGXCPU else "WorkerDied"}]
            out["killed"] = out["ev"][0]["a"]
            out["rc"] = p.returncode
            return out
        foreign = []
        try:
            side = json.loads(evf.read_text())
            ev, foreign = side["ev"], side.get("foreign", [])
        except Exception:
            ev = None
        so, se = p.stdout.decode("utf-8", "replace"), p.stderr.decode("utf-8", "replace")
        if ev is not None and not foreign and len(so) != side.get("own_chars", len(so)):
            foreign = [f"stdout carries {len(so)} characters, cli.py wrote {side.get('own_chars')}"]
        if ev is None:
            out["machinery"] = f"cli launcher produced no events (rc={p.returncode}): {se[-300:]}"
            return out
        ev.append(cli_out_event(so, se, p.returncode, foreign))
        out.update(ev=ev, stdout_len=len(so), stderr=se[-400:], rc=p.returncode, foreign_stdout=foreign)
        return out

    def targets(self, log):
        """line log of a dry run -> injection targets: first hit of every (function, line, after-yield?, instance<=2)."""
        seen, count, out = set(), {}, []
        for name, line, y, inst in log:
            key = (name, line, y)
            count[key] = count.get(key, 0) + 1
            k2 = (name, line, y, min(inst, 2))
            if inst > 2 or k2 in seen:
                continue
            seen.add(k2)
            lf = self.by_name.get(name)
            if lf is not None and line in lf.noop:
                continue
            out.append({"fn": name, "line": line, "ay": y, "inst": inst, "hit": count[key],
                        "st": lf.stage_of(line) if lf else "try", "t": lf.t if lf else "Cli",
                        "k": lf.k if lf else "-", "rel": line - (lf.first if lf else 0)})
        return out


def cli_out_event(stdout, stderr, rc, foreign=()):
    """stdout class, number of lines the CLI wrote to stderr (logging / warnings are routed away by the harness, so
    every line is the CLI's own: a diagnostic whose message contains newlines counts as that many lines)."""
    lines = stderr.splitlines()
    if foreign:
        o = "polluted"                      # somebody other than the CLI wrote to stdout
    elif stdout == "":
        o = "empty"
    elif rc == 0 and stdout.endswith("\n"):
        o = "result"
    else:
        o = "partial"
    return {"a": "CliOut", "out": o, "diag": min(len(lines), 9), "exit": rc if isinstance(rc, int) and 0 <= rc < 9 else 9}


def serve(wdir):
    proto = os.fdopen(os.dup(1), "w", buffering=1)
    devnull = open(os.devnull, "w")
    os.dup2(devnull.fileno(), 1)
    global PROXY
    PROXY = StdoutProxy(devnull)
    sys.stdout = PROXY                      # before the library and its third-party readers are imported
    try:
        w = Worker(wdir)
    except Exception as e:
        proto.write(json.dumps({"fatal": f"{type(e).__name__}: {e}"}) + "\n")
        return 2
    proto.write(json.dumps({"ready": True, "layers": [lf.describe() for lf in w.layers]}) + "\n")
    import resource
    for line in sys.stdin:
        line = line.strip()
        if not line:
            continue
        job = json.loads(line)
        if job.get("op") == "quit":
            break
        try:
            res = w.run(job)
        except MemoryError:
            res = {"id": job.get("id"), "machinery": "MemoryError outside the library"}
        except Exception as e:
            import traceback
            res = {"id": job.get("id"), "machinery": f"{type(e).__name__}: {e}", "tb": traceback.format_exc()[-1500:]}
        proto.write(json.dumps(res) + "\n")
    return 0


# ===================================================================================== cli subprocess
def clisub(argv_json, events_file):
    """Run cli.main in THIS fresh process with the recorder on; events -> file; real stdout/stderr/exit."""
    import logging
    import warnings
    global PROXY
    real = sys.stdout
    strict = io.TextIOWrapper(real.buffer, encoding="utf-8", errors="strict", newline="", write_through=True)
    PROXY = StdoutProxy(strict)
    sys.stdout = PROXY                      # before the library and its third-party readers are imported
    warnings.simplefilter("ignore")
    logging.getLogger().addHandler(logging.NullHandler())
    from .repo import activate
    activate()
    from sharepoint2text import cli
    from sharepoint2text.parsing import exceptions as X
    from . import c01_layers, c01_monitor
    fam = {n: getattr(X, n) for n in list(FAMILY_CLASSES.values())}
    layers = c01_layers.discover()
    rec = c01_monitor.Recorder(layers, fam)
    rec.install(line_events=False)
    rec.begin()
    rc = 9
    PROXY.begin(strict, cli.__file__)
    try:
        rc = cli.main(json.loads(argv_json))
    finally:
        ev = rec.end()
        Path(events_file).write_text(json.dumps({"ev": ev, "foreign": PROXY.foreign, "own_chars": PROXY.own_chars}))
        PROXY.flush()
    return rc


# ===================================================================================== pool (driver side)
class _Proc:
    def __init__(self, idx, scratch, env):
        self.idx = idx
        self.wdir = Path(scratch) / f"w{idx}"
        self.env = env
        self.p = None
        self.buf = b""
        self.layers = None

    def start(self):
        self.p = subprocess.Popen([PY, "-m", "mbv.c01_worker", "serve", str(self.wdir)], cwd=str(VERIF), env=self.env,
                                  stdin=subprocess.PIPE, stdout=subprocess.PIPE, stderr=subprocess.DEVNULL)
        self.buf = b""
        msg = self._read(120)
        if not isinstance(msg, dict) or not msg.get("ready"):
            raise RuntimeError(f"worker {self.idx} did not start: {msg}")
        self.layers = msg["layers"]

    def _read(self, timeout):
        """one JSON line or "timeout" / "eof"."""
        fd = self.p.stdout.fileno()
        end = time.time() + timeout
        while b"\n" not in self.buf:
            left = end - time.time()
            if left <= 0:
                return "timeout"
            r, _, _ = select.select([fd], [], [], min(left, 1.0))
            if not r:
                if self.p.poll() is not None and not select.select([fd], [], [], 0)[0]:
                    return "eof"
                continue
            chunk = os.read(fd, 1 << 16)
            if not chunk:
                return "eof"
            self.buf += chunk
        line, self.buf = self.buf.split(b"\n", 1)
        try:
            return json.loads(line)
        except Exception:
            return "eof"

    def kill(self):
        try:
            self.p.kill()
            self.p.wait(10)
        except Exception:
            pass

    def do(self, job, timeout):
        try:
            self.p.stdin.write((json.dumps(job) + "\n").encode())
            self.p.stdin.flush()
        except Exception:
            return "eof"
        return self._read(timeout)


class Pool:
    """At most n worker processes; run(jobs) -> results in order.  A job that overruns its budget or
    kills its worker yields {"ev": [{"a": "Timeout" | "WorkerDied"}], ...}."""

    def __init__(self, scratch, n=12, env=None):
        from .repo import child_env
        self.scratch = Path(scratch)
        self.n = n
        self.env = env or child_env()
        self.procs = []
        self.layers = None

    def __enter__(self):
        self.procs = [_Proc(i, self.scratch, self.env) for i in range(self.n)]
        errs = []

        def st(p):
            try:
                p.start()
            except Exception as e:
                errs.append(str(e))
        ts = [threading.Thread(target=st, args=(p,)) for p in self.procs]
        for t in ts:
            t.start()
        for t in ts:
            t.join()
        if errs:
            self.__exit__()
            raise RuntimeError("; ".join(errs[:3]))
        self.layers = self.procs[0].layers
        return self

    def __exit__(self, *a):
        for p in self.procs:
            try:
                p.p.stdin.write(b'{"op": "quit"}\n')
                p.p.stdin.flush()
                p.p.stdin.close()
            except Exception:
                pass
        for p in self.procs:
            try:
                p.p.wait(5)
            except Exception:
                p.kill()

    @staticmethod
    def budget(job):
        mb = job.get("approx_size", 0) / 1e6
        return job.get("wall", 20.0 + 2.0 * mb)

    def run(self, jobs, progress=None):
        results = [None] * len(jobs)
        it = iter(range(len(jobs)))
        lock = threading.Lock()
        done = [0]

        def loop(proc):
            while True:
                with lock:
                    i = next(it, None)
                if i is None:
                    return
                job = dict(jobs[i])
                job["id"] = i
                wall = self.budget(job)
                job["cpu"] = int(wall) + 5
                t0 = time.time()
                # sharp criterion = CPU time (RLIMIT_CPU in the worker); the wall limit only catches a process
                # that sleeps / blocks, and is wide because the machine is shared
                res = proc.do(job, max(300.0, wall * 15))
                if res in ("timeout", "eof"):
                    # the CPU limit (SIGXCPU) is the sharp criterion; wall overrun = hung or still spinning
                    rc = proc.p.poll()
                    if rc is None and res == "eof":
                        try:
                            rc = proc.p.wait(15)          # the pipe closes before the exit status is available
                        except Exception:
                            rc = None
                    kind = "Timeout" if (res == "timeout" or rc == -signal.SIGXCPU) else "WorkerDied"
                    proc.kill()
                    results[i] = {"id": i, "ev": [{"a": kind}], "killed": kind, "rc": rc, "wall": round(time.time() - t0, 1)}
                    try:
                        proc.start()
                    except Exception as e:
                        results[i]["restart_failed"] = str(e)
                        return
                else:
                    res["wall"] = round(time.time() - t0, 3)
                    results[i] = res
                    if res.get("recycle"):              # a thread of that worker is stuck for good
                        proc.kill()
                        try:
                            proc.start()
                        except Exception:
                            return
                with lock:
                    done[0] += 1
                    if progress and done[0] % 500 == 0:
                        progress(done[0], len(jobs))
        ts = [threading.Thread(target=loop, args=(p,)) for p in self.procs]
        for t in ts:
            t.start()
        for t in ts:
            t.join()
        return results


if __name__ == "__main__":
    if sys.argv[1] == "serve":
        sys.exit(serve(sys.argv[2]))
    if sys.argv[1] == "clisub":
        sys.exit(clisub(sys.argv[2], sys.argv[3]))
