"""Batch trace validation (code -> spec).

Convention for every specs/*Trace.tla module:

    EXTENDS <Spec>, Json, IOUtils, TLC, TLCExt, Sequences, Naturals
    Traces == JsonDeserialize(IOEnv.TRACE_FILE)      \\* JSON array of traces
    VARIABLES tid, l                                 \\* which trace, next event (1-based)
    TraceInit == tid \\in 1..Len(Traces) /\\ l = 1 /\\ <spec Init, possibly from Traces[tid].hdr>
    ... one trace action per spec action:  IsEvent(name) /\\ bind logged fields /\\ SpecAction
    TraceAccept ==                                   \\* listed under CONSTRAINT in the cfg
        /\\ (l = Len(Traces[tid].ev) + 1) => PrintT(<<"ACCEPT", tid>>)
        /\\ (IOEnv.MBV_PROGRESS = "1") => PrintT(<<"AT", tid, l>>)

A trace is {"id": <str>, "hdr": {...}, "ev": [ {"a": <action>, ...}, ... ]}.
A trace is accepted iff TLC reaches l = Len(ev)+1 for it.  Rejected traces are re-run
alone with MBV_PROGRESS=1 to find the longest matched prefix.
"""
from __future__ import annotations

import json
import re
import uuid
from concurrent.futures import ThreadPoolExecutor
from dataclasses import dataclass
from pathlib import Path
from typing import Optional

from .tlc import TLCResult, run_tlc

_ACC = re.compile(r'<<"ACCEPT", (\d+)>>')
_AT = re.compile(r'<<"AT", (\d+), (\d+)>>')


@dataclass
class TraceVerdict:
    id: str
    accepted: bool
    reached: int          # number of events matched (for rejected traces; len(ev) when accepted)
    length: int


@dataclass
class BatchResult:
    verdicts: list
    states: int
    distinct: int
    wall_s: float

    @property
    def rejected(self):
        return [v for v in self.verdicts if not v.accepted]


def _chunks(xs, n):
    k = max(1, (len(xs) + n - 1) // n)
    return [xs[i : i + k] for i in range(0, len(xs), k)]


def validate(spec: str, cfg: str, traces: list, *, scratch: Path, parallel: int = 8,
             timeout: int = 900, env: Optional[dict] = None, min_chunk: int = 200,
             diagnose: int = 12) -> BatchResult:
    """Validate traces against specs/<spec>.tla. Returns one TraceVerdict per trace (input order)."""
    if not traces:
        return BatchResult([], 0, 0, 0.0)
    nchunks = max(1, min(parallel, len(traces) // min_chunk or 1))
    chunks = _chunks(list(enumerate(traces)), nchunks)

    def run_chunk(ci_chunk):
        ci, chunk = ci_chunk
        f = scratch / f"traces-{spec}-{ci}-{uuid.uuid4().hex[:10]}.json"
        f.write_text(json.dumps([t for _, t in chunk]))
        e = dict(env or {})
        e.update(TRACE_FILE=str(f), MBV_PROGRESS="0")
        r = run_tlc(spec, cfg, scratch=scratch, workers=1, timeout=timeout, env=e, expect_fail=True,
                    keep_going=True)
        acc = {int(x) for x in _ACC.findall(r.output)}
        out = {}
        rej = []
        for k, (gi, t) in enumerate(chunk, start=1):
            if k in acc:
                out[gi] = TraceVerdict(str(t.get("id", gi)), True, len(t["ev"]), len(t["ev"]))
            else:
                rej.append((gi, t))
        # -continue keeps TLC going after an invariant violation; a trace whose state violates an
        # invariant is cut there (TLC does not expand violating states), so it is never accepted
        if rej:
            for n_d, (gi, t) in enumerate(rej):
                if len(t["ev"]) <= 1 or n_d >= diagnose:
                    # single-event traces need no prefix search; beyond `diagnose` rejected traces per
                    # chunk the longest matched prefix is not computed (reached = -1: unknown)
                    out[gi] = TraceVerdict(str(t.get("id", gi)), False, 0 if len(t["ev"]) <= 1 else -1,
                                           len(t["ev"]))
                    continue
                f1 = scratch / f"trace1-{spec}-{gi}-{uuid.uuid4().hex[:10]}.json"
                f1.write_text(json.dumps([t]))
                e1 = dict(env or {})
                e1.update(TRACE_FILE=str(f1), MBV_PROGRESS="1")
                r1 = run_tlc(spec, cfg, scratch=scratch, workers=1, timeout=timeout, env=e1,
                             expect_fail=True)
                ok1 = bool(_ACC.search(r1.output)) and not r1.violated
                reached = max([int(b) for _, b in _AT.findall(r1.output)] or [1]) - 1
                out[gi] = TraceVerdict(str(t.get("id", gi)), ok1, len(t["ev"]) if ok1 else reached,
                                       len(t["ev"]))
                f1.unlink(missing_ok=True)
        f.unlink(missing_ok=True)
        return out, r

    verdicts = {}
    states = distinct = 0
    wall = 0.0
    with ThreadPoolExecutor(max_workers=nchunks) as ex:
        for out, r in ex.map(run_chunk, list(enumerate(chunks))):
            verdicts.update(out)
            states += r.generated
            distinct += r.distinct
            wall = max(wall, r.wall_s)
    return BatchResult([verdicts[i] for i in range(len(traces))], states, distinct, wall)
