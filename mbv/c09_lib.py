"""Binding shared by C09 (archive confinement) and C10 (archive members come out as themselves).

An abstract case of specs/Archive.tla  (format, members [kind, nc], consumer history)  is concretised
here: member names of the given class, member documents with unique token words, canary host files at
every host path a member names, the archive built with zipfile / tarfile / the independent 7z writer
(mbv/c10_sevenz.py).  The worker runs read_archive under the consumer history literally (next x k,
close(), throw(RuntimeError), del + gc.collect()), records every file-system effect through
sys.addaudithook (classified with os.path.realpath against the private directories created through
tempfile under the worker's own TMPDIR) and writes one trace per archive for specs/ArchiveTrace.tla.

Nothing here computes an expectation: member paths are looked up (projection), digests are compared by
TLC, effects are classified, the directory is listed.
"""
from __future__ import annotations

import gc
import hashlib
import io
import json
import os
import random
import shutil
import struct
import sys
import tarfile
import zipfile
from pathlib import Path

from . import c10_sevenz as sz

CANARY = "cnry"
TEXT_FMTS = ["txt", "md", "csv", "json", "html"]
RICH_FMTS = ["docx", "xlsx", "pptx", "pdf", "odt", "rtf", "epub", "html", "txt", "md", "csv", "ods", "odp", "json"]
EMPTY_OK = ["txt", "md", "csv"]            # extractors that return a result for zero bytes
SMALL_LIMIT = 150_000                      # max_memory_size configured in the worker (oversize = LIMIT + 1)


def tok(i: int) -> str:
    return f"zq{i:04d}x"


# ----------------------------------------------------------------------------- member documents
def make_doc(fmt: str, ids) -> bytes:
    from .docrun import flow_doc, render
    ids = list(ids)
    if fmt in ("txt", "md", "csv", "tsv", "json", "pdf"):
        return render({"kind": "pages", "pages": [[ids[:1], ids[1:]] if len(ids) > 1 else [ids]]}, fmt)
    if fmt in ("docx", "odt", "html", "rtf", "epub", "mhtml"):
        return render(flow_doc([["p", [["r", i]]] for i in ids]), fmt)
    if fmt in ("xlsx", "ods"):
        return render({"kind": "book", "sheets": [{"name": tok(ids[0]), "name_id": ids[0],
                                                   "rows": [[["s", i] for i in (ids[1:] or ids[:1])]]}]}, fmt)
    if fmt in ("pptx", "odp"):
        return render({"kind": "deck", "slides": [{"shapes": [["title", [["r", ids[0]]]],
                                                              ["body", [[["r", i]] for i in ids[1:]]]],
                                                   "notes": []}]}, fmt)
    raise ValueError(fmt)


# ----------------------------------------------------------------------------- concretisation
def _name_for(nc, j, ext, root, rng, canaries):
    """-> (member name, canary token or None).  Creates nothing; `canaries` collects (path, word)."""
    stem = f"m{j}{rng.choice('abcdefgh')}"
    if rng.random() < 0.25:     # an archive extension INSIDE the name (backup.zip.txt, release-1.2.tar.md): only the
        stem += rng.choice([".zip", ".tar", ".7z", ".tar.gz", ".tgz-old", ".ZIP", ".txz", "-1.2.tar", ".tar.bz2"])   # last one counts
    base = f"{stem}.{ext}"
    word = f"{CANARY}{j}{rng.randrange(1000, 9999)}x"

    def host(p):
        canaries.append((p, word))

    if nc == "plain":
        return base
    if nc == "nested":
        return rng.choice([f"dir{j}/{base}", f"dir{j}/sub dir/{base}", f"a/b/c{j}/{base}"])
    if nc == "dotslash":
        return rng.choice([f"./{base}", f"./dir{j}/{base}", f"dir{j}/./{base}", f"./dir{j}/./sub/{base}"])
    if nc == "unicode":
        # incl. UTF-16 code units whose LOW byte is 0 right after an ASCII character (U+0100, combining U+0300 /
        # U+0301 of NFD names, CJK U+4E00): byte-wise scans for a "\0\0" name terminator trip over them
        return rng.choice([f"dossier é{j}/日本語 {base}", f"Ünï cødé {j} {base}", f"папка{j}/{base}",
                           f"d\u0100{j}/a\u0300e\u0301 {base}", f"x\u4e00\u4e00{j} {base}", f"nfd a\u0300 {j}/\u4e00 {base}"])
    if nc == "absolute":
        p = os.path.join(root, "host", f"abs{j}_{base}")
        host(p)
        return p
    if nc == "dotdot":
        v = rng.randrange(3)
        if v == 0:
            host(os.path.join(root, "tmp", f"up{j}_{base}"))
            return f"../up{j}_{base}"
        if v == 1:
            host(os.path.join(root, f"up{j}_{base}"))
            return f"../../up{j}_{base}"
        host(os.path.join(root, "tmp", f"up{j}_{base}"))
        return f"d{j}/../../up{j}_{base}"
    if nc == "dotdotIn":
        return f"d{j}/../{base}"
    if nc == "backslash":
        v = rng.randrange(7)
        if v == 4:          # backslash-separated dot-dot segments: one harmless POSIX file name - unless somebody
            host(os.path.join(root, "tmp", f"bs{j}_{base}"))        # turns the backslashes into separators
            return f"docs{j}\\..\\..\\bs{j}_{base}"
        if v == 5:
            host(os.path.join(root, "host", f"bs{j}_{base}"))
            return f"docs{j}\\..\\..\\..\\host\\bs{j}_{base}"
        if v == 6:          # mixed separators
            host(os.path.join(root, "tmp", f"bs{j}_{base}"))
            return f"d{j}/x\\..\\..\\..\\bs{j}_{base}"
        return [f"d{j}\\{base}", f"..\\{base}", f"\\{base}", f"\\\\srv\\share\\{base}"][v]
    if nc == "dslash":          # absolute, written with two leading slashes
        return rng.choice([f"//srv{j}/export/{base}", f"//{base}"])
    if nc == "drive":
        return rng.choice([f"C:\\{base}", f"C:/{base}", f"c:{base}"])
    if nc == "empty":
        return ""
    if nc == "long":
        return rng.choice(["L" * 300 + base, "/".join(["p" * 200] * 25) + "/" + base])
    if nc == "hostname":
        host(os.path.join(root, "cwd", f"cwd{j}_{base}"))
        return f"cwd{j}_{base}"
    raise ValueError(nc)


def _case_ext(ext, rng):
    """Letter case of the extension, drawn independently of everything else: lower / UPPER / Mixed."""
    r = rng.random()
    if r < 0.5:
        return ext
    if r < 0.75:
        return ext.upper()
    return ".".join(p[:1].upper() + p[1:] if i % 2 == 0 else p.upper() for i, p in enumerate(ext.split(".")))


def concretise(members, root, rng, rich=False, limit=SMALL_LIMIT, tok0=1):
    """abstract members [{kind, nc}] -> concrete members + canary list."""
    out, canaries = [], []
    nid = [tok0]

    mine = []

    def ids(n):
        r = list(range(nid[0], nid[0] + n))
        nid[0] += n
        mine.extend(r)
        return r
    for j, m in enumerate(members, start=1):
        kind, nc = m["kind"], m["nc"]
        mine = []
        c = {"kind": kind, "nc": nc, "tar": None, "link": "", "toks": mine}
        hostile = nc not in ("plain", "nested", "unicode", "dotslash", "dup")
        ext = rng.choice(TEXT_FMTS if (hostile or not rich) else RICH_FMTS)
        dup = nc == "dup" and bool(out)         # a second / third entry under the name of the preceding one
        if dup:
            ext = out[-1]["ext"]
        if dup and kind == "emptyFile":
            c["data"] = b""
        elif dup and kind == "oversize":
            head = (" ".join(tok(i) for i in ids(2)) + "\n").encode()
            c["data"] = head + b"a" * (limit + 1 - len(head))
        elif kind == "doc":
            c["data"] = make_doc(ext, ids(rng.randint(1, 4)))
        elif kind == "emptyFile":
            ext = rng.choice(EMPTY_OK)
            c["data"] = b""
        elif kind == "corrupt":
            c["data"] = make_doc(ext, ids(2))
        elif kind == "nostream":
            ext = rng.choice(TEXT_FMTS)
            c["data"] = b""
        elif kind == "dir":
            c["data"] = b""
        elif kind in ("hidden", "fork"):
            c["data"] = make_doc(ext, ids(2))
        elif kind == "nested":
            ext = rng.choice(["zip", "tar", "tar.gz", "tgz", "tar.bz2", "tar.xz", "7z"])
            inner = make_doc("txt", ids(2))
            c["data"] = build_zip([{"name": "inner.txt", "data": inner, "kind": "doc"}], "stored") if ext == "zip" \
                else (sz.write_7z([{"name": "inner.txt", "kind": "file", "data": inner}], [[0]])[0] if ext == "7z"
                      else build_tar([{"name": "inner.txt", "data": inner, "kind": "doc", "tar": None, "link": ""}],
                                     {"tar": "", "tar.gz": "gz", "tgz": "gz", "tar.bz2": "bz2", "tar.xz": "xz"}[ext]))
        elif kind == "unsup":
            ext = rng.choice(["xyz", "bin", "exe", "abc", "dat"])
            c["data"] = (" ".join(tok(i) for i in ids(2))).encode()
        elif kind == "oversize":
            ext = "txt"
            head = (" ".join(tok(i) for i in ids(2)) + "\n").encode()
            c["data"] = head + b"a" * (limit + 1 - len(head))
        elif kind in ("symlink", "hardlink", "chardev", "fifo", "linkPrev", "symPrev"):
            ext = rng.choice(TEXT_FMTS) if kind in ("linkPrev", "symPrev") else "txt"   # a supported extension
            c["data"] = b""
            c["tar"] = {"linkPrev": "hardlink", "symPrev": "symlink"}.get(kind, kind)
        else:
            raise ValueError(kind)
        c["ext"] = ext
        c["tflag"] = rng.choice(["reg", "reg", "reg", "areg", "cont", "sparse"])      # tar only: type flag of a regular file
        name = out[-1]["name"] if dup else _name_for("plain" if nc == "dup" else nc, j, _case_ext(ext, rng), root, rng, canaries)
        if dup:
            pass
        elif kind == "dir":
            name = name.rsplit(".", 1)[0] if nc != "dotslash" else rng.choice([".", f"./d{j}", f"./d{j}/."])
        elif kind == "hidden":
            d, _, b = name.rpartition("/")
            name = (d + "/" if d else "") + rng.choice([".", "._"]) + b
        elif kind == "fork":
            d, _, b = name.rpartition("/")
            name = "__MACOSX/" + (d + "/" if d else "") + rng.choice(["", "._"]) + b
        if kind in ("linkPrev", "symPrev") and out:
            c["link"] = out[-1]["name"]                  # the member stored just before this one
        elif kind in ("symlink", "hardlink", "linkPrev", "symPrev"):
            p = os.path.join(root, "host", f"linktarget{j}.txt")
            canaries.append((p, f"{CANARY}{j}lnk{rng.randrange(1000, 9999)}x"))
            c["link"] = p
        c["name"] = name
        c["comps"] = name.split("/") if name else [""]
        c["ncomps"] = [x for x in c["comps"] if x != "."] or [""]
        out.append(c)
    return out, canaries


# ----------------------------------------------------------------------------- archive builders
def _zip_patch(data: bytes, index: int, what: str) -> bytes:
    """Damage member `index` (0-based, central directory order) of a ZIP."""
    b = bytearray(data)
    eocd = data.rfind(b"PK\x05\x06")
    cd_off = struct.unpack("<I", data[eocd + 16:eocd + 20])[0]
    p = cd_off
    for _ in range(index):
        n, e, c = struct.unpack("<HHH", data[p + 28:p + 34])
        p += 46 + n + e + c
    assert data[p:p + 4] == b"PK\x01\x02"
    csize = struct.unpack("<I", data[p + 20:p + 24])[0]
    lho = struct.unpack("<I", data[p + 42:p + 46])[0]
    ln, le = struct.unpack("<HH", data[lho + 26:lho + 30])
    dstart = lho + 30 + ln + le
    if what == "flip":
        b[dstart + (csize // 2 if csize else 0)] ^= 0x5A
    elif what == "crc":
        b[p + 16] ^= 0xFF
        b[lho + 14] ^= 0xFF
    elif what == "method":
        b[p + 10:p + 12] = struct.pack("<H", 98)
        b[lho + 8:lho + 10] = struct.pack("<H", 98)
    else:
        raise ValueError(what)
    return bytes(b)


def pack_params(fmt, comp, rng):
    """Packer parameters that change the container header / framing, chosen per archive (seeded).
    ZIP: deflate level.  TAR: header format (USTAR / GNU / PAX), bz2 block size (BZh1..BZh9), gzip level +
    header fields (mtime, FNAME, FCOMMENT, FEXTRA), xz preset + integrity check type."""
    if fmt == "zip":
        return {"level": rng.choice([1, 6, 9])}
    if fmt == "tar":
        p = {"tarfmt": rng.choice(["ustar", "gnu", "pax"])}
        if comp == "bz2":
            p["level"] = rng.choice([1, 5, 9])
        elif comp == "gz":
            p.update(level=rng.choice([1, 6, 9]), gzmtime=rng.choice([0, 1700000000]),
                     gzname=rng.choice(["", "A.tar", "données.tar"]), gzextra=rng.choice([0, 0, 1]))
        elif comp == "xz":
            p.update(level=rng.choice([0, 3, 6]), xzcheck=rng.choice(["crc32", "crc64", "sha256", "none"]))
        return p
    return {}


def build_zip(members, method="deflated", corrupt=None, params=None) -> bytes:
    """corrupt: None | (member index, "flip" | "crc" | "method")."""
    params = params or {}
    buf = io.BytesIO()
    comp = zipfile.ZIP_STORED if method == "stored" else zipfile.ZIP_DEFLATED
    with zipfile.ZipFile(buf, "w", comp, compresslevel=params.get("level") if comp == zipfile.ZIP_DEFLATED else None) as zf:
        for m in members:
            name = m["name"] + ("/" if m["kind"] == "dir" else "")
            zi = zipfile.ZipInfo(name, date_time=(2024, 1, 2, 3, 4, 6))
            zi.compress_type = comp
            zi.external_attr = (0o40755 << 16 | 0x10) if m["kind"] == "dir" else (0o100644 << 16)
            zf.writestr(zi, m["data"])
    data = buf.getvalue()
    if corrupt:
        data = _zip_patch(data, corrupt[0], corrupt[1])
    return data


def _gzip_container(raw: bytes, level, mtime, name, extra) -> bytes:
    """RFC 1952 member written by hand so that every optional header field can be set."""
    import zlib
    flg = (8 if name else 0) | (4 if extra else 0) | (16 if extra else 0)
    out = bytearray(b"\x1f\x8b\x08" + bytes([flg]) + struct.pack("<I", mtime) + (b"\x02" if level == 9 else b"\x04" if level == 1 else b"\x00")
                    + b"\x03")
    if extra:
        out += struct.pack("<H", 6) + b"AB" + struct.pack("<H", 2) + b"xy"      # FEXTRA: one subfield
    if name:
        out += name.encode("latin-1", "replace") + b"\x00"                      # FNAME
    if extra:
        out += b"packed by the C10 harness\x00"                                 # FCOMMENT
    co = zlib.compressobj(level, zlib.DEFLATED, -15)
    out += co.compress(raw) + co.flush()
    out += struct.pack("<II", zlib.crc32(raw) & 0xFFFFFFFF, len(raw) & 0xFFFFFFFF)
    return bytes(out)


def _tar_make_sparse(data: bytes, index: int) -> bytes:
    """Turn member `index` of a GNU-format tar into a GNU sparse member ('S') whose map is one data block covering the
    whole file (old GNU format 0.0: map in the header at 386, real size at 483)."""
    with tarfile.open(fileobj=io.BytesIO(data), mode="r:") as rd:
        ti = rd.getmembers()[index]
    h = ti.offset_data - 512
    b = bytearray(data)
    blk = b[h:h + 512]
    blk[156:157] = b"S"
    blk[345:500] = b"\x00" * 155
    blk[386:398] = b"%011o\x00" % 0
    blk[398:410] = b"%011o\x00" % ti.size
    blk[483:495] = b"%011o\x00" % ti.size
    blk[148:156] = b" " * 8
    blk[148:156] = b"%06o\x00 " % sum(blk)
    b[h:h + 512] = blk
    return bytes(b)


TAR_FLAGS = {"reg": tarfile.REGTYPE, "areg": tarfile.AREGTYPE, "cont": tarfile.CONTTYPE}


def _write_plain_tar(members, fmt) -> bytes:
    buf = io.BytesIO()
    with tarfile.open(fileobj=buf, mode="w", format=fmt) as tf:
        for i, m in enumerate(members):
            ti = tarfile.TarInfo(m["name"])
            ti.mtime = 1700000000
            t = m.get("tar")
            if m["kind"] == "dir":
                ti.type = tarfile.DIRTYPE
                ti.mode = 0o755
                tf.addfile(ti)
            elif t == "symlink":
                ti.type, ti.linkname = tarfile.SYMTYPE, m["link"]
                tf.addfile(ti)
            elif t == "hardlink":
                ti.type, ti.linkname = tarfile.LNKTYPE, m["link"]
                tf.addfile(ti)
            elif t == "chardev":
                ti.type, ti.devmajor, ti.devminor = tarfile.CHRTYPE, 1, 3
                tf.addfile(ti)
            elif t == "fifo":
                ti.type = tarfile.FIFOTYPE
                tf.addfile(ti)
            else:
                # every one of these type flags is a regular file (tarfile.TarInfo.isreg): '0', NUL (old V7 tar),
                # '7' (contiguous file), 'S' (GNU sparse; patched in below, GNU header format only)
                ti.type = TAR_FLAGS.get(m.get("tflag", "reg"), tarfile.REGTYPE)
                ti.size = len(m["data"])
                tf.addfile(ti, io.BytesIO(m["data"]))
    data = buf.getvalue()
    if fmt == tarfile.GNU_FORMAT:
        for i, m in enumerate(members):
            if m.get("tflag") == "sparse" and m["kind"] != "dir" and not m.get("tar") and len(m["data"]) > 0:
                data = _tar_make_sparse(data, i)
    return data


def build_tar(members, comp="", corrupt=None, fmt=None, params=None) -> bytes:
    """comp: "" | gz | bz2 | xz.  corrupt: None | (member index, "flip") (plain tar only).
    The tar stream is written first, then put into the compression container with the given parameters."""
    import bz2
    import lzma
    params = params or {}
    tfmt = fmt if fmt is not None else {"ustar": tarfile.USTAR_FORMAT, "gnu": tarfile.GNU_FORMAT,
                                        "pax": tarfile.PAX_FORMAT}[params.get("tarfmt", "pax")]
    try:
        data = _write_plain_tar(members, tfmt)
    except ValueError:                       # USTAR cannot store this name / link name: use PAX
        data = _write_plain_tar(members, tarfile.PAX_FORMAT)
    if corrupt:
        assert comp == "" and corrupt[1] == "flip"
        with tarfile.open(fileobj=io.BytesIO(data), mode="r:") as rd:      # payload offsets as a reader sees them
            offs = {i: ti.offset_data for i, ti in enumerate(rd.getmembers())}
        assert len(members[corrupt[0]]["data"]) > 0
        b = bytearray(data)
        b[offs[corrupt[0]] + len(members[corrupt[0]]["data"]) // 2] ^= 0x5A
        data = bytes(b)
    if comp == "gz":
        data = _gzip_container(data, params.get("level", 6), params.get("gzmtime", 0), params.get("gzname", ""),
                               params.get("gzextra", 0))
    elif comp == "bz2":
        data = bz2.compress(data, params.get("level", 9))
    elif comp == "xz":
        chk = {"crc32": lzma.CHECK_CRC32, "crc64": lzma.CHECK_CRC64, "sha256": lzma.CHECK_SHA256,
               "none": lzma.CHECK_NONE}[params.get("xzcheck", "crc64")]
        if not lzma.is_check_supported(chk):
            chk = lzma.CHECK_CRC64
        data = lzma.compress(data, format=lzma.FORMAT_XZ, check=chk, preset=params.get("level", 6))
    return data


def build_7z(members, coder="lzma2", layout="solid", enc=False, corrupt=None, rng=None):
    """layout: solid | perfile | mixed.  corrupt: None | (member index, "flip" | "trunc" | "crc").
    A member damaged by flip / trunc is put into a folder of its own."""
    rng = rng or random.Random(0)
    entries, data_idx = [], []
    for i, m in enumerate(members):
        k = m["kind"]
        if k == "dir":
            ek = "dir"
        elif k == "nostream":
            ek = "nostream"
        elif k == "emptyFile" or (k != "nostream" and len(m["data"]) == 0):
            ek = "empty"
        else:
            ek = "file"
            data_idx.append(i)
        entries.append({"name": m["name"], "kind": ek, "data": m["data"] if ek == "file" else b""})
    alone = corrupt[0] if corrupt and corrupt[1] in ("flip", "trunc") else None
    folders = []
    if layout == "solid" and alone is None:
        folders = [list(data_idx)] if data_idx else []
    elif layout == "perfile":
        folders = [[i] for i in data_idx]
    else:
        cur = []
        for i in data_idx:
            if i == alone:
                if cur:
                    folders.append(cur)
                folders.append([i])
                cur = []
                continue
            cur.append(i)
            if rng.random() < 0.5:
                folders.append(cur)
                cur = []
        if cur:
            folders.append(cur)
    coders = [rng.choice(["copy", "lzma", "lzma2"]) for _ in folders] if coder == "mixed" else coder
    c7 = None
    if corrupt:
        j, what = corrupt
        fi = next(k for k, f in enumerate(folders) if j in f)
        if what == "flip":
            c7 = ("flip", fi, rng.randrange(1 << 16))
        elif what == "trunc":
            c7 = ("trunc", fi, rng.randint(1, 6))
        else:
            c7 = ("crc", sum(len(f) for f in folders[:fi]) + folders[fi].index(j))
    data, info = sz.write_7z(entries, folders, coders=coders, encode_header=enc, gap=rng.choice([0, 0, 3, 40]),
                             dict_size=sz.lzma2_dict(rng.randrange(13)),       # LZMA2 property bytes 0..12, odd ones too
                             declared_dict=rng.choice([None, None, None, 1 << 20, 16 << 20, 64 << 20, 192 << 20]),
                             always_nums=rng.random() < 0.3, attrs=rng.random() < 0.7, mtime=rng.random() < 0.3,
                             corrupt=c7)
    if c7 is None or c7[0] == "crc":
        sz.roundtrip_check(data)
    return data


# ----------------------------------------------------------------------------- worker: observation
STATE = {"on": False, "mute": 0, "ev": [], "roots": [], "tmpdir": "", "outside": [], "err": "", "armed": False}
_RUNTIME = []


def _real(p):
    if isinstance(p, bytes):
        p = os.fsdecode(p)
    if isinstance(p, int):
        try:
            return os.path.realpath(os.readlink(f"/proc/self/fd/{p}"))
        except OSError:
            return f"<fd {p}>"
    return os.path.realpath(os.path.abspath(os.fspath(p)))


def classify(p, dir_fd=None):
    if isinstance(dir_fd, int) and dir_fd < 0:
        dir_fd = None
    if dir_fd is not None and isinstance(p, (str, bytes)) and not os.path.isabs(os.fsdecode(p) if isinstance(p, bytes) else p):
        try:
            p = os.path.join(os.readlink(f"/proc/self/fd/{dir_fd}"), os.fsdecode(p) if isinstance(p, bytes) else p)
        except OSError:
            pass
    ap = _real(p)
    for r in STATE["roots"]:
        if ap == r:
            return "TmpRootItself", ap
        if ap.startswith(r + os.sep):
            return "InsideTmp", ap
    return "Outside", ap


def _fs(op, p, dir_fd=None, readonly=False):
    cls, ap = classify(p, dir_fd)
    if readonly and cls == "Outside" and any(ap == r or ap.startswith(r + os.sep) for r in _RUNTIME):
        return                      # the interpreter reading its own installation (lazy imports, linecache)
    if len(STATE["ev"]) < 400:
        STATE["ev"].append({"a": "Fs", "op": op, "cls": cls})
    if cls == "Outside" and len(STATE["outside"]) < 5:
        STATE["outside"].append(f"{op} {ap[-160:]}")


def _hook(event, args):
    st = STATE
    if not st["on"] or st["mute"]:
        return
    try:
        if event == "open":
            path, mode, flags = args
            if isinstance(path, int):
                return
            if isinstance(mode, str):
                w = any(c in mode for c in "wax+")
            else:
                w = bool((flags or 0) & (os.O_WRONLY | os.O_RDWR | os.O_CREAT | os.O_TRUNC | os.O_APPEND))
            _fs("write" if w else "read", path, readonly=not w)
        elif event == "tempfile.mkdtemp" or event == "tempfile.mkstemp":
            full = _real(args[0])
            if os.path.dirname(full) == st["tmpdir"]:
                st["roots"].append(full)            # a private name created through tempfile under TMPDIR
            if event == "tempfile.mkstemp":
                _fs("write", args[0])
        elif event == "os.mkdir":
            # the event fires before the call: mkdir of a directory that already exists fails (EEXIST,
            # os.makedirs(exist_ok=True) probes this way) and creates nothing -> not an effect
            dfd = args[2] if len(args) > 2 and isinstance(args[2], int) and args[2] >= 0 else None
            if dfd is None and os.path.isdir(os.fsdecode(args[0]) if isinstance(args[0], bytes) else args[0]):
                return
            _fs("mkdir", args[0], dfd)
        elif event in ("os.remove", "os.rmdir"):
            _fs("remove", args[0], args[1] if len(args) > 1 else None)
        elif event == "os.rename":
            _fs("rename", args[0], args[2] if len(args) > 2 else None)
            _fs("rename", args[1], args[3] if len(args) > 3 else None)
        elif event in ("os.symlink", "os.link"):
            _fs("link", args[1], args[2] if len(args) > 2 else None)
            if event == "os.symlink":
                tgt = os.fsdecode(args[0]) if isinstance(args[0], bytes) else args[0]
                _fs("link", os.path.join(os.path.dirname(os.path.abspath(os.fsdecode(args[1])
                                                                             if isinstance(args[1], bytes) else args[1])), tgt))
            else:
                _fs("link", args[0])
        elif event in ("os.scandir", "os.listdir"):
            _fs("list", args[0] if args[0] is not None else ".", readonly=True)
        elif event in ("os.chmod", "os.chown", "os.truncate", "os.utime", "os.mkfifo", "os.mknod", "os.setxattr",
                       "os.removexattr"):
            _fs("other", args[0])
        elif event == "shutil.rmtree":
            _fs("rmtree", args[0], args[1] if len(args) > 1 else None)
        elif event in ("shutil.copyfile", "shutil.copymode", "shutil.copystat", "shutil.copytree", "shutil.move"):
            _fs("read", args[0], readonly=True)
            _fs("write", args[1])
        elif event in ("shutil.make_archive", "shutil.unpack_archive", "shutil.chown"):
            _fs("other", args[0])
        elif event in ("subprocess.Popen", "os.system", "os.exec", "os.posix_spawn", "os.spawn", "os.fork", "os.forkpty"):
            st["err"] = f"external process / fork ({event}): file-system effects are not observable"
    except Exception as e:      # never let the hook disturb the code under observation
        st["err"] = st["err"] or f"audit hook failed on {event}: {e!r}"


def arm():
    """Install the audit hook and the rmtree bracket once per worker process."""
    if STATE["armed"]:
        return
    import sysconfig
    from . import REPO, VERIF
    for p in {sys.prefix, sys.base_prefix, sys.exec_prefix, sysconfig.get_paths()["stdlib"],
              sysconfig.get_paths()["purelib"], sysconfig.get_paths()["platlib"], str(REPO), str(VERIF / "mbv"),
              os.path.dirname(os.__file__)}:
        _RUNTIME.append(os.path.realpath(p))
    orig = shutil.rmtree

    def rmtree(path, *a, **k):
        # one effect <<rmtree, class(path)>>; the fd-relative events inside it are not classifiable one by one
        if STATE["on"] and not STATE["mute"]:
            _fs("rmtree", path, k.get("dir_fd"))
        STATE["mute"] += 1
        try:
            return orig(path, *a, **k)
        finally:
            STATE["mute"] -= 1
    rmtree.avoids_symlink_attacks = getattr(orig, "avoids_symlink_attacks", False)
    shutil.rmtree = rmtree
    sys.addaudithook(_hook)
    STATE["armed"] = True


_DG = {}


def _strip(j):
    if isinstance(j, dict) and isinstance(j.get("metadata"), dict):
        j = dict(j)
        j["metadata"] = {k: v for k, v in j["metadata"].items()
                         if k not in ("filename", "file_extension", "file_path", "folder_path")}
    return j


def digest_id(r) -> int:
    blob = json.dumps(_strip(r.to_json()), sort_keys=True, default=repr)
    h = hashlib.sha256(blob.encode("utf-8", "surrogatepass")).hexdigest()
    return _DG.setdefault(h, len(_DG) + 1)


def direct_results(basename: str, data: bytes):
    """Digest ids of extracting the member's bytes on their own (router picks the extractor)."""
    import sharepoint2text
    out = []
    try:
        ex = sharepoint2text.get_extractor(basename)
        for r in ex(io.BytesIO(data), path="direct/" + basename):
            out.append(digest_id(r))
    except Exception:
        pass
    return out


_TOK = __import__("re").compile(r"zq(\d{4})x")


def run_history(read_archive, data, apath, hist, lookup, owner=None, directs=None):
    """Execute the consumer history literally; append consumer events to STATE['ev']."""
    ev = STATE["ev"]
    owner = owner or {}
    directs = directs or {}
    seen = {}
    tokened = set(owner.values())
    blank = {"m": 0, "fn": "", "path": "", "dg": 0, "canary": 0, "exc": "", "own": []}

    def project(r):
        STATE["mute"] += 1
        try:
            md = r.get_metadata()
            fn, path = getattr(md, "filename", None) or "", getattr(md, "file_path", None) or ""
            text = json.dumps(r.to_json(), default=repr)
            toks = {owner[int(x)] for x in _TOK.findall(text) if int(x) in owner}
            cands = lookup.get(path, [])
            used = seen.setdefault(path, set())
            # several entries may bear this name: the result belongs to the entry whose direct extraction it
            # equals, else to the entry whose token words it carries, else (damaged content) to the first unused
            # entry that has content of its own, else in order
            dg = digest_id(r)
            m = 0
            if len(cands) > 1:      # the entry whose direct extraction this result equals
                m = next((j for j in cands if j not in used and dg in directs.get(j, ())), 0)
            if cands and m == 0:
                m = next((j for j in cands if j in toks), 0)
            if cands and m == 0:
                m = next((j for j in cands if j not in used and j in tokened), 0) \
                    or next((j for j in cands if j not in used), cands[-1])
            used.add(m)
            if m == 0:      # a result from INSIDE a member (e.g. a nested archive that was opened): that member
                m = next((js[0] for raw, js in lookup.items() if raw and path.startswith(raw + "!/")), 0)
            own = sorted(toks)
            return {"m": m, "fn": fn[:400], "path": path[:700], "dg": dg,
                    "canary": 1 if CANARY in text else 0, "exc": "", "own": own}
        finally:
            STATE["mute"] -= 1
    g = [read_archive(io.BytesIO(data), apath)]
    live = [True]
    items = [0]

    def step(kind, call):
        try:
            r = call()
        except StopIteration:
            ev.append({"a": kind, "out": "stop", **blank})
            live[0] = False
            return
        except BaseException as e:  # noqa
            ev.append({"a": kind, "out": "raise", **blank, "exc": type(e).__name__})
            live[0] = False
            return
        ev.append({"a": kind, "out": "item", **project(r)})
        items[0] += 1

    def pump(limit):
        while live[0] and (limit is None or items[0] < limit):
            step("CNext", lambda: next(g[0]))

    def close():
        try:
            g[0].close()
            ev.append({"a": "CClose", "out": "ok"})
        except BaseException as e:  # noqa
            ev.append({"a": "CClose", "out": "raise:" + type(e).__name__})
    t, k = hist["t"], hist["k"]
    if t == "Exhaust":
        pump(None)
    elif t == "CloseAfter":
        pump(k)
        close()
    elif t == "Abandon":
        pump(k)
        g.clear()
        gc.collect()
        ev.append({"a": "CDrop"})
    elif t == "Throw":
        pump(k)
        if live[0]:
            step("CThrow", lambda: g[0].throw(RuntimeError("consumer failed")))
        close()
    else:
        raise ValueError(t)
    g.clear()


def tree(root, skip=()):
    """Every file and directory below root (except the given directories) with size and content hash."""
    out = {}
    skip = {os.path.realpath(s) for s in skip}
    for d, dirs, files in os.walk(root):
        dirs[:] = [x for x in dirs if os.path.realpath(os.path.join(d, x)) not in skip]
        for x in dirs:
            out[os.path.relpath(os.path.join(d, x), root) + "/"] = "dir"
        for x in files:
            p = os.path.join(d, x)
            try:
                st = os.lstat(p)
                with open(p, "rb") as f:
                    out[os.path.relpath(p, root)] = f"{st.st_size}:{hashlib.sha256(f.read(1 << 20)).hexdigest()}"
            except OSError:
                out[os.path.relpath(p, root)] = "unreadable"
    return out


def snapshot(paths):
    out = {}
    for p in paths:
        try:
            out[p] = hashlib.sha256(Path(p).read_bytes()).hexdigest()
        except OSError:
            out[p] = "missing"
    return out


def build_archive(fmt, members, variant, rng):
    """variant: zip {"method", "corrupt"}, tar {"comp", "corrupt"}, 7z {"coder", "layout", "enc", "corrupt"}."""
    cor = variant.get("corrupt") or None
    if cor:
        cor = tuple(cor)
    if fmt == "zip":
        return build_zip(members, variant.get("method", "deflated"), cor, variant.get("pack")), "A.zip"
    if fmt == "tar":
        comp = variant.get("comp", "")
        return build_tar(members, comp, cor, params=variant.get("pack")), "A.tar" + ("." + comp if comp else "")
    if fmt == "7z":
        return build_7z(members, variant.get("coder", "lzma2"), variant.get("layout", "solid"),
                        bool(variant.get("enc")), cor, rng), "A.7z"
    raise ValueError(fmt)


def run_case(case, wroot, audit=True):
    """One abstract case -> list of traces (one per variant)."""
    from sharepoint2text.parsing.extractors import archive_extractor as ae
    rng = random.Random(case["seed"])
    root = os.path.join(wroot, "case")           # one sandbox per worker, emptied after every case
    for d in ("tmp", "cwd", "host"):
        os.makedirs(os.path.join(root, d), exist_ok=True)
    import tempfile
    tempfile.tempdir = os.path.join(root, "tmp")
    STATE["tmpdir"] = os.path.realpath(tempfile.tempdir)
    os.chdir(os.path.join(root, "cwd"))
    traces = []
    try:
        abstract = case["members"]
        if case["fmt"] == "7z":
            # 7z hands the data streams to the entries in listing order: an entry without stream can only
            # follow the entries that have one (the case is normalised, not rejected)
            abstract = [m for m in abstract if m["kind"] != "nostream"] + [m for m in abstract if m["kind"] == "nostream"]
        members, canaries = concretise(abstract, root, rng, rich=case.get("rich", False),
                                       limit=case.get("limit", SMALL_LIMIT), tok0=case.get("tok0", 1))
        for p, w in canaries:
            os.makedirs(os.path.dirname(p), exist_ok=True)
            Path(p).write_text(f"host secret {w} must never appear\n", encoding="utf-8")
        cpaths = [p for p, _ in canaries]
        directs = []
        for m in members:
            base = os.path.basename(m["name"])
            directs.append(direct_results(base, m["data"]) if m["kind"] in ("doc", "emptyFile") and base else [])
        for vi, variant in enumerate(case["variants"]):
            ms = members
            cor = variant.get("corrupt")
            if cor and cor[1] == "baddoc":
                ms = [dict(m) for m in members]
                ms[cor[0]]["data"] = b"\x00\x01garbage " + bytes(rng.randrange(256) for _ in range(64))
                base = ms[cor[0]]["name"].rsplit(".", 1)[0]
                ms[cor[0]]["name"] = base + "." + rng.choice(["docx", "pdf", "xlsx", "pptx", "odt", "epub"])
                ms[cor[0]]["comps"] = ms[cor[0]]["name"].split("/")
                ms[cor[0]]["ncomps"] = [x for x in ms[cor[0]]["comps"] if x != "."] or [""]
                variant = dict(variant, corrupt=None)
            data, apath = build_archive(case["fmt"], ms, variant, rng)
            lookup = {}
            for j, m in enumerate(ms, start=1):
                raw = f"{apath}!/{m['name']}"
                for key in {raw, str(Path(raw))}:
                    lookup.setdefault(key, []).append(j)
            owner = {t: j for j, m in enumerate(ms, start=1) for t in m.get("toks", [])}
            before = snapshot(cpaths)
            tree0 = tree(root) if audit else None
            STATE.update(ev=[], roots=[], outside=[], err="")
            STATE["on"] = audit
            try:
                run_history(ae.read_archive, data, apath, case["hist"], lookup, owner,
                            {j: d for j, d in enumerate(directs, start=1)})
            finally:
                STATE["on"] = False
            left = sorted(set(os.listdir(os.path.join(root, "tmp"))) - {os.path.basename(p) for p in cpaths
                                                                         if os.path.dirname(p) == os.path.join(root, "tmp")})
            ev = list(STATE["ev"])
            if audit:
                # the file system itself: anything created / changed / removed in the sandbox outside the private
                # temporary directories (which must be gone: `left`)
                tree1 = tree(root, skip=STATE["roots"])
                changed = sorted(k for k in set(tree0) | set(tree1) if tree0.get(k) != tree1.get(k))
                if changed:
                    STATE["outside"].append("changed on disk: " + ", ".join(changed[:3]))
                ev.append({"a": "Final", "left": len(left),
                           "hostchg": 0 if snapshot(cpaths) == before and not changed else 1})
                for x in left:
                    shutil.rmtree(os.path.join(root, "tmp", x), ignore_errors=True)
            hdr = {"fmt": case["fmt"], "apath": apath, "hist": case["hist"],
                   "members": [{"kind": m["kind"], "nc": m["nc"], "comps": m["comps"], "ncomps": m["ncomps"], "direct": d}
                               for m, d in zip(ms, directs)]}
            traces.append({"id": f"{case['id']}/{vi}", "hdr": hdr, "ev": ev,
                           "dbg": {"variant": json.dumps(case["variants"][vi]), "names": [m["name"][:80] for m in ms],
                                   "outside": list(STATE["outside"]), "left": left[:3], "err": STATE["err"]}})
    finally:
        os.chdir(wroot)
        STATE["mute"] += 1
        try:
            for d in (root, os.path.join(root, "tmp"), os.path.join(root, "cwd"), os.path.join(root, "host")):
                for x in os.listdir(d):
                    px = os.path.join(d, x)
                    if os.path.isdir(px) and not os.path.islink(px):
                        if d != root:
                            shutil.rmtree(px, ignore_errors=True)
                    else:
                        os.unlink(px)
        finally:
            STATE["mute"] -= 1
    return traces


def warm_up(wroot):
    """Import every extractor and exercise the three archive paths before the audit hook records."""
    from sharepoint2text.parsing.extractors import archive_extractor as ae
    import tempfile
    d = os.path.join(wroot, "warm")
    os.makedirs(d, exist_ok=True)
    tempfile.tempdir = d
    docs = [{"name": f"w{i}.{f}", "kind": "doc", "nc": "plain", "data": make_doc(f, [900 + i, 950 + i]), "tar": None,
             "link": ""} for i, f in enumerate(sorted(set(RICH_FMTS + TEXT_FMTS)))]
    docs.append({"name": "bad.docx", "kind": "doc", "nc": "plain", "data": b"garbage", "tar": None, "link": ""})
    for data, ap in ((build_zip(docs), "W.zip"), (build_tar(docs, "gz"), "W.tar.gz"), (build_tar(docs), "W.tar"),
                     (build_7z(docs, "lzma2", "solid"), "W.7z")):
        try:
            for r in ae.read_archive(io.BytesIO(data), ap):
                r.to_json()
                r.get_metadata()
        except Exception:      # warm-up only loads code; verdicts come from the recorded cases
            pass
    for m in docs:
        direct_results(m["name"], m["data"])
    shutil.rmtree(d, ignore_errors=True)


def worker_main(job_file, out_file):
    from .repo import activate
    from .tlc import MachineryError
    activate()
    import logging
    import warnings
    warnings.simplefilter("ignore")
    logging.disable(logging.CRITICAL)
    job = json.loads(Path(job_file).read_text())
    wroot = job["wroot"]
    os.makedirs(wroot, exist_ok=True)
    from sharepoint2text.parsing.extractors import archive_extractor as ae
    if not hasattr(ae, "read_archive"):
        raise MachineryError("binding vanished: archive_extractor.read_archive")
    limit = job.get("limit", SMALL_LIMIT)
    if limit and hasattr(ae, "configure_archive_extraction"):
        ae.configure_archive_extraction(max_memory_size=limit)
        if getattr(getattr(ae, "_config", None), "max_memory_size", None) != limit:
            limit = None
    else:
        limit = None
    warm_up(wroot)
    gc.collect()
    gc.freeze()          # the consumer history "del + gc.collect()" then only scans objects of the case
    if job.get("audit", True):
        arm()
    traces = []
    for case in job["cases"]:
        case["limit"] = limit or 10 * 1024 * 1024
        traces.extend(run_case(case, wroot, audit=job.get("audit", True)))
    Path(out_file).write_text(json.dumps(traces))


if __name__ == "__main__":
    worker_main(sys.argv[1], sys.argv[2])
