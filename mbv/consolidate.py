"""Merge findings/*.json fragments (open findings written per property) into known_findings.json, the single
committed known-findings file; fragments are removed afterwards.  Entries that are neither open nor fixed
(e.g. 'fix-proposed' whose fix has meanwhile been committed) are dropped."""
import json
from . import VERIF

f = VERIF / "known_findings.json"
d = json.loads(f.read_text())
have = {e["id"] for e in d["findings"]}
for frag in sorted((VERIF / "findings").glob("*.json")):
    for e in json.loads(frag.read_text()).get("findings", []):
        if e.get("status") == "open" and e["id"] not in have:
            e.setdefault("line", f"open: property={e['property']} {e['id']} {e.get('witness', '')}")
            d["findings"].append(e)
            have.add(e["id"])
    frag.unlink()
d["findings"].sort(key=lambda e: (e["property"], e["status"], e["id"]))
f.write_text(json.dumps(d, indent=1))
print(len(d["findings"]), "entries;", sum(e["status"] == "open" for e in d["findings"]), "open")
