"""Shared executor for the document-algebra properties (C02, C03, C13, C14, C04, C06):
number a TLC-enumerated shape, render it with a writer, run the real extractor in a worker
process, project the result (text tokens, units, tables, images, metadata)."""
from __future__ import annotations

import io
import json
import os
import sys
from concurrent.futures import ProcessPoolExecutor

from .docmodel import TOKEN_RE_NOSPACE, _tok_id, ACCENT_BASE, NUMERIC_BASE, constructs, project_text, word
import unicodedata
import re

_ALNUM = re.compile(r"[^\W_]+")

# ----------------------------------------------------------------------------- shapes -> documents
def from_tla(v):
    """TLC value (tuples / ints / strs) -> JSON-able nested lists."""
    if isinstance(v, tuple):
        return [from_tla(x) for x in v]
    if isinstance(v, (frozenset, set)):
        return sorted(from_tla(x) for x in v)
    if isinstance(v, dict):
        return {k: from_tla(x) for k, x in v.items()}
    return v if not isinstance(v, str) else str(v)


def number_blocks(blocks, start=1):
    """Replace the placeholder id 0 of every leaf by 1, 2, ... in reading order. Returns (blocks, next)."""
    n = [start]

    def inl(xs):
        out = []
        for i in xs:
            t = i[0]
            if t in ("r", "fn", "cm"):
                out.append([t, n[0]])
                n[0] += 1
            elif t in ("rx", "rn"):     # accented two-word run / 16-digit number: same leaf, other rendering (docmodel.word)
                out.append(["r", n[0] + (ACCENT_BASE if t == "rx" else NUMERIC_BASE)])
                n[0] += 1
            elif t in ("a", "ins", "del", "isdt"):
                out.append([t, inl(i[1])])
            elif t == "itbx":
                out.append([t, blk(i[1])])
            else:
                out.append(list(i))
        return out

    def blk(bs):
        out = []
        for b in bs:
            t = b[0]
            if t == "p":
                out.append(["p", inl(b[1])])
            elif t == "h":
                out.append(["h", b[1], inl(b[2])])
            elif t == "ul":
                out.append(["ul", [blk(item) for item in b[1]]])
            elif t == "tbl":
                out.append(["tbl", [[blk(cell) for cell in row] for row in b[1]]])
            else:
                out.append([t, blk(b[1])])
        return out
    res = blk(blocks)
    return res, n[0]


def number_units(kind, units, start=1):
    """DocGen2 state (tuple of unit shapes) -> writer document with leaves numbered in reading order."""
    n = [start]

    def nxt():
        n[0] += 1
        return n[0] - 1

    def inl(xs):
        out = []
        for i in xs:
            if i[0] == "r":
                out.append(["r", nxt()])
            elif i[0] == "a":
                out.append(["a", inl(i[1])])
            else:
                out.append(list(i))
        return out
    if kind == "deck":
        slides = []
        for u in units:
            shapes = []
            for sh in u["shapes"]:
                if sh[0] == "title":
                    shapes.append(["title", inl(sh[1])])
                elif sh[0] in ("body", "text"):
                    shapes.append([sh[0], [inl(p) for p in sh[1]]])
                else:
                    shapes.append(["tbl", [[[inl(p) for p in cell] for cell in row] for row in sh[1]]])
            slides.append({"shapes": shapes, "notes": inl(u["notes"])})
        return {"kind": "deck", "slides": slides}
    if kind == "book":
        sheets = []
        for u in units:
            nid = nxt()
            sheets.append({"name": word(nid), "name_id": nid,
                           "rows": [[["s", nxt()] if c else None for c in row] for row in u]})
        return {"kind": "book", "sheets": sheets}
    if kind == "pages":
        return {"kind": "pages", "pages": ["gap" if list(pg) == [99] else [[nxt() for _ in range(cnt)] for cnt in pg]
                                           for pg in units]}
    raise ValueError(kind)


def flow_doc(blocks, header=None, footer=None, props=None):
    return {"kind": "flow", "blocks": blocks, "header": header or [], "footer": footer or [], "props": props or {}}


def normalize(doc):
    """Universal form handed to Doc.tla: units with blocks / notes / name, header, footer."""
    k = doc.get("kind", "flow")
    if k == "flow":
        return {"units": [{"blocks": doc["blocks"], "notes": [], "name": 0, "gap": 0}],
                "header": doc.get("header") or [], "footer": doc.get("footer") or []}
    if k == "deck":
        units = []
        for s in doc["slides"]:
            blocks = []
            for sh in s.get("shapes", []):
                if sh[0] == "title":
                    blocks.append(["h", 1, sh[1]])
                elif sh[0] == "body":
                    blocks.extend(["p", p] for p in sh[1])
                elif sh[0] == "text":       # a free text box (not a placeholder)
                    blocks.append(["tbx", [["p", p] for p in sh[1]]])
                elif sh[0] == "tbl":
                    blocks.append(["tbl", [[[["p", p] for p in cell] for cell in row] for row in sh[1]]])
            units.append({"blocks": blocks, "notes": s.get("notes") or [], "name": 0, "gap": 0})
        return {"units": units, "header": [], "footer": []}
    if k == "book":
        units = []
        for sh in doc["sheets"]:
            rows = [[[["p", [["r", c[1]]]]] if c and c[0] == "s" else [] for c in row] for row in sh["rows"]]
            units.append({"blocks": [["tbl", rows]] if rows else [], "notes": [], "name": sh.get("name_id", 0), "gap": 0})
        return {"units": units, "header": [], "footer": []}
    if k == "pages":
        return {"units": [{"blocks": [["p", [["r", i] for i in ln]] for ln in pg] if pg != "gap" else [], "notes": [],
                           "name": 0, "gap": 1 if pg == "gap" else 0}
                          for pg in doc["pages"]], "header": [], "footer": []}
    raise ValueError(k)


# ----------------------------------------------------------------------------- rendering
def supports(fmt):
    from .writers import docx as wd, odf, web, misc, doc as wdoc
    return {"doc": wdoc.SUPPORTS, "docx": wd.SUPPORTS, "odt": odf.ODT_SUPPORTS, "html": web.HTML_SUPPORTS, "mhtml": web.HTML_SUPPORTS,
            "epub": web.HTML_SUPPORTS, "rtf": misc.RTF_SUPPORTS}[fmt]


def expressible(doc, fmt):
    k = doc.get("kind", "flow")
    if k == "flow":
        return fmt in ("doc", "docx", "odt", "html", "mhtml", "epub", "rtf") and constructs(doc) <= supports(fmt)
    if k == "deck":
        if fmt == "ppt":
            from .writers import ppt as wppt
            return wppt.expressible(doc)
        return fmt in ("pptx", "odp", "odg")
    if k == "book":
        return fmt in ("xlsx", "ods", "xls")
    if k == "pages":
        return fmt in ("pdf", "txt", "md", "csv", "tsv", "json", "rtf", "epub")
    return False


def render(doc, fmt) -> bytes:
    from .writers import docx as wd, pptx as wp, xlsx as wx, odf, web, misc
    k = doc.get("kind", "flow")
    if k == "flow":
        if fmt == "doc":
            from .writers import doc as wdoc
            return wdoc.write_doc(doc)
        if fmt == "docx":
            return wd.write_docx(doc, images=[(i["target"], i.get("data"), i.get("part")) for i in doc.get("images") or []])
        if fmt == "odt":
            return odf.write_odt(doc)
        if fmt == "html":
            return web.write_html(doc)
        if fmt == "mhtml":
            return web.write_mhtml(doc)
        if fmt == "epub":
            depth = ("OEBPS", "", "EPUB/package")[len(doc.get("blocks") or []) % 3]
            return web.write_epub({"chapters": [doc], "props": doc.get("props")}, opf_dir=depth, vary_ext=True)
        if fmt == "rtf":
            return misc.write_rtf(doc)
    if k == "deck":
        if fmt == "ppt":
            from .writers import ppt as wppt
            return wppt.write_ppt(doc)
        return {"pptx": wp.write_pptx, "odp": odf.write_odp, "odg": odf.write_odg}[fmt](doc)
    if k == "book":
        if fmt == "xls":
            from .writers import xls as wxls
            return wxls.write_xls(doc)
        return {"xlsx": wx.write_xlsx, "ods": odf.write_ods}[fmt](doc)
    if k == "pages":
        if fmt == "pdf":
            return misc.write_pdf(doc["pages"], doc.get("props"), images=doc.get("pdf_images"), rotate=True)
        if fmt == "rtf":
            return misc.write_rtf({"pages": [[["p", [["r", i] for i in ln]] for ln in pg] for pg in doc["pages"]]})
        if fmt == "epub":
            # the package file sits at the root, one or two directories deep (chosen by the document's shape)
            depth = ("", "OEBPS", "EPUB/package")[sum(len(pg) for pg in doc["pages"] if pg != "gap") % 3]
            return web.write_epub({"chapters": ["gap" if pg == "gap" else {"blocks": [["p", [["r", i] for i in ln]] for ln in pg]}
                                                for pg in doc["pages"]], "props": doc.get("props")}, opf_dir=depth, vary_ext=True)
        return misc.write_plain([ln for pg in doc["pages"] for ln in pg], fmt)
    if k == "formula":
        return odf.write_odf_formula(doc["ids"], doc.get("props"))
    raise ValueError((k, fmt))


EXTRACTOR = {"doc": "read_doc", "docx": "read_docx", "odt": "read_odt", "html": "read_html", "mhtml": "read_mhtml", "epub": "read_epub",
             "rtf": "read_rtf", "pptx": "read_pptx", "ppt": "read_ppt", "odp": "read_odp", "odg": "read_odg", "xlsx": "read_xlsx",
             "ods": "read_ods", "odf": "read_odf", "xls": "read_xls", "pdf": "read_pdf", "txt": "read_plain_text", "md": "read_plain_text",
             "csv": "read_plain_text", "tsv": "read_plain_text", "json": "read_plain_text"}


# ----------------------------------------------------------------------------- observation (worker side)
def _proj(text):
    p = project_text(text)
    words = []
    for gap in p["residue"]:
        words.extend(_ALNUM.findall(gap))
        # invisible characters that are not white space (byte-order mark, NUL, other control / format characters)
        words.extend(f"U+{ord(c):04X}" for c in gap if not c.isspace() and unicodedata.category(c) in ("Cc", "Cf", "Co", "Cn"))
    return {"obs": p["ids"], "sep": p["sep"], "residue": words[:6]}


def _cell_proj(v):
    """Observed table cell as a record: ids (token text), lit (other text), val (typed value), empty = ids []."""
    if isinstance(v, str):
        p = project_text(v)
        rest = "".join(p["residue"]).strip()
        if p["ids"] and not _ALNUM.search(rest):
            return {"k": "ids", "v": p["ids"], "s": "", "v2": p["ids"], "sep": p["sep"]}
        if v.strip() == "":
            return {"k": "ids", "v": [], "s": "", "v2": [], "sep": []}
        # v2: the token ids found after deleting all white space (a word broken by inserted blanks)
        return {"k": "lit", "v": [], "s": v[:60], "v2": [_tok_id(m) for m in TOKEN_RE_NOSPACE.finditer(re.sub(r"\s+", "", v))], "sep": []}
    if v is None:
        return {"k": "ids", "v": [], "s": "", "v2": [], "sep": []}
    return {"k": "val", "v": [], "s": f"{type(v).__name__}:{v!r}"[:60], "v2": [], "sep": []}


def observe(job):
    """job = {"fmt", "data": bytes, "path"}; returns the projected observation or {"exc": ...}."""
    from .repo import activate
    activate()
    import warnings
    warnings.simplefilter("ignore")
    import sharepoint2text
    fmt = job["fmt"]
    fn = getattr(sharepoint2text, EXTRACTOR[fmt], None)
    if fn is None:
        import importlib
        from sharepoint2text.parsing.router import _EXTRACTOR_REGISTRY
        mod, name = _EXTRACTOR_REGISTRY[fmt]
        fn = getattr(importlib.import_module(mod), name)
    try:
        results = list(fn(io.BytesIO(job["data"]), job.get("path") or f"gen.{fmt}"))
    except Exception as e:
        return {"exc": type(e).__name__, "msg": str(e)[:200]}
    if len(results) != 1:
        return {"exc": "ResultCount", "msg": str(len(results))}
    r = results[0]
    out = {}
    try:
        out["text"] = _proj(r.get_full_text())
        units = []
        for u in r.iterate_units():
            md = u.get_metadata()
            num = getattr(md, "unit_number", None) if not isinstance(md, dict) else md.get("unit_number")
            up = _proj(u.get_text())
            up["n"] = num if isinstance(num, int) and not isinstance(num, bool) else -1
            hp = getattr(md, "heading_path", None) if not isinstance(md, dict) else md.get("heading_path")
            up["heads"] = _proj(" ".join(hp))["obs"] if isinstance(hp, (list, tuple)) else []
            utabs = u.get_tables()
            up["ntables"] = len(utabs)
            up["tbl"] = [i for t in utabs for row in t.get_table() for c in row
                         for i in (project_text(c)["ids"] if isinstance(c, str) else [])]
            up["nimages"] = len(u.get_images())
            up["raw"] = u.get_text()
            units.append(up)
        full = r.get_full_text()
        out["joinok"] = bool(full == "\n".join(u["raw"] for u in units).strip())
        # the same law under every boolean option both accessors share (pptx: include_image_captions)
        import inspect
        try:
            pf = inspect.signature(r.get_full_text).parameters
            pu = inspect.signature(r.iterate_units).parameters
            opts = [k for k in pf if k in pu and pf[k].default is False]
        except (TypeError, ValueError):
            opts = []
        for k in opts:
            f2 = r.get_full_text(**{k: True})
            j2 = "\n".join(u.get_text() for u in r.iterate_units(**{k: True})).strip()
            out["joinok"] = out["joinok"] and bool(f2 == j2)
        for u in units:
            del u["raw"]
        out["units"] = units
        tables = []
        for t in r.iterate_tables():
            g = t.get_table()
            d = t.get_dim()
            tables.append({"grid": [[_cell_proj(c) for c in row] for row in g],
                           "dim": [getattr(d, "rows", -1), getattr(d, "columns", -1)]})
        out["tables"] = tables
        out["full_raw"] = r.get_full_text()[:400]
    except Exception as e:
        return {"exc": "Accessor:" + type(e).__name__, "msg": str(e)[:200]}
    return out


def rich_doc(fmt, seed=0):
    """One document per format with text, a table and two images (for C04 / C06 / C14 style checks)."""
    from .writers.images import make
    img1, img2 = make("png", 5 + seed % 3, 4, seed), make("jpeg", 9, 6 + seed % 2, seed)
    blocks = [["h", 1, [["r", 1]]], ["p", [["r", 2], ["tab"], ["r", 3]]],
              ["tbl", [[[["p", [["r", 4]]]], [["p", [["r", 5]]]]], [[["p", [["r", 6]]]], [["p", [["r", 7]]]]]]],
              ["h", 2, [["r", 8]]], ["p", [["r", 9]]]]
    props = {"title": "Rich T", "author": "Au Thor", "subject": "Subj", "keywords": "k1 k2", "description": "Descr"}
    if fmt == "doc":      # legacy Word: paragraphs, a table, a hyperlink field, a footnote, a comment, header / footer
        return flow_doc([["p", [["r", 1], ["tab"], ["r", 2]]], ["p", [["r", 3], ["a", [["r", 4]]], ["fn", 5], ["cm", 6]]],
                         ["tbl", [[[["p", [["r", 7]]]], [["p", [["r", 8]]]]], [[["p", [["r", 9]]]], [["p", [["r", 10]]]]]]],
                         ["p", [["r", 11], ["br"], ["r", 12]]]], header=[["r", 13]], footer=[["r", 14]], props=props)
    if fmt in ("docx", "odt", "html", "mhtml", "epub", "rtf"):
        d = flow_doc(blocks, props=props)
        if fmt == "docx":
            # paragraph styles whose names differ only in letter case (order-sensitive collections)
            d["blocks"] += [["p", [["r", 10]], {"style": "Note"}], ["p", [["r", 11]], {"style": "NOTE"}],
                            ["p", [["r", 12]], {"style": "note"}]]
            d["images"] = [{"target": "media/image1.png", "part": "word/media/image1.png", "data": img1},
                           {"target": "media/image2.jpeg", "part": "word/media/image2.jpeg", "data": img2}]
        if fmt == "odt":
            d["images"] = [{"target": "Pictures/a.png", "part": "Pictures/a.png", "data": img1},
                           {"target": "Pictures/b.jpeg", "part": "Pictures/b.jpeg", "data": img2}]
        return d
    if fmt in ("pptx", "odp", "odg"):
        pre = "../media/" if fmt == "pptx" else "Pictures/"
        part = "ppt/media/" if fmt == "pptx" else "Pictures/"
        return {"kind": "deck", "props": props, "slides": [
            {"shapes": [["title", [["r", 1]]], ["body", [[["r", 2]], [["r", 3]]]],
                        ["tbl", [[[[["r", 4]]], [[["r", 5]]]], [[[["r", 6]]], [[["r", 7]]]]]]],
             "notes": [["r", 8]] if fmt != "odg" else [],
             "images": [{"target": pre + "i1.png", "part": part + "i1.png", "data": img1, "descr": "alt " + word(20)}]},
            {"shapes": [["text", [[["r", 9]]]]], "notes": [], "comments": [10] if fmt == "pptx" else [],
             "images": [{"target": pre + "i2.jpeg", "part": part + "i2.jpeg", "data": img2}]}]}
    if fmt == "xls":
        return {"kind": "book", "props": props, "sheets": [
            {"name": word(1), "name_id": 1, "rows": [[["s", 2], ["s", 3]], [["str", "  " + word(4)], ["n", 1.5]]]},
            {"name": word(6), "name_id": 6, "rows": [[["s", 7]], [["s", 8]]]}]}
    if fmt in ("xlsx", "ods"):
        pre = "../media/" if fmt == "xlsx" else "Pictures/"
        part = "xl/media/" if fmt == "xlsx" else "Pictures/"
        return {"kind": "book", "props": props, "sheets": [
            {"name": word(1), "name_id": 1, "rows": [[["str", "  " + word(2)], ["s", 3]], [["s", 4], ["str", word(5) + "  "]]],
             "images": [{"target": pre + "i1.png", "part": part + "i1.png", "data": img1}]},
            {"name": word(6), "name_id": 6, "rows": [[["s", 7]]], "images": []}]}
    if fmt in ("pdf", "txt", "md", "csv", "tsv", "json"):
        d = {"kind": "pages", "props": props, "pages": [[[1, 2], [3]], [[4]]]}
        if fmt == "pdf":     # images whose /ColorSpace is a name, an array with an indirect reference, a nested array
            raw = bytes((x * 7 + seed) % 4 for x in range(6 * 5))
            d["pdf_images"] = {0: [{"kind": "flate", "data": bytes(6 * 5 * 3), "w": 6, "h": 5},
                                   {"kind": "flate", "data": bytes(6 * 5 * 3), "w": 6, "h": 5, "cs": "icc"}],
                               1: [{"kind": "flate", "data": raw, "w": 6, "h": 5, "cs": "indexed-icc"}]}
        return d
    if fmt == "ppt":
        # second slide: no title, one body placeholder and a free text box ("other" text); third: free text only
        return {"kind": "deck", "props": props, "slides": [
            {"shapes": [["title", [["r", 1]]], ["body", [[["r", 2]], [["r", 3]]]]], "notes": [["r", 4]]},
            {"shapes": [["body", [[["r", 5]]]], ["text", [[["r", 6]]]], ["text", [[["r", 7]]]]], "notes": []},
            {"shapes": [["text", [[["r", 8]]]]], "notes": [["r", 9]]}]}
    if fmt == "odf":
        return {"kind": "formula", "props": props, "ids": [[1, 2], [3, 4, 5]]}
    raise ValueError(fmt)


def _run_job(job):
    doc, fmt = job["doc"], job["fmt"]
    data = render(doc, fmt)
    res = observe({"fmt": fmt, "data": data})
    return res


def run_jobs(jobs, workers=16):
    """jobs: [{"doc":..., "fmt":...}] -> observations, in order (process pool; library imported per worker)."""
    if not jobs:
        return []
    with ProcessPoolExecutor(max_workers=workers) as ex:
        return list(ex.map(_run_job, jobs, chunksize=max(1, len(jobs) // (workers * 8))))
