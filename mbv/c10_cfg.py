"""C10 / C09 configuration histories: configure_archive_extraction(...) called with subsets of its parameters, then
archives whose members lie on both sides of every candidate limit.  Each history runs in its own forked child of an
import-only zygote process (fresh module configuration); the trace is validated by TLC (specs/ArchiveCfgTrace.tla)."""
from __future__ import annotations

import io
import json
import os
import random
import sys
from pathlib import Path

from . import c09_lib as L
from .c09_seq import in_child

SIZES = [32768, 32769, 65536, 65537, 100000, 100001, 300000, 300001, 400000]
BIG = [10485760, 10485761]                 # the documented default limit (10 MB), both sides


def probe_archive(fmt, sizes, rng):
    members = []
    for i, s in enumerate(sizes, start=1):
        head = f"probe {L.tok(i)} ".encode()
        members.append({"name": f"p{i}.txt", "kind": "doc", "data": head + b"a" * (s - len(head)), "tar": None, "link": ""})
    if fmt == "zip":
        return L.build_zip(members, "deflated"), "P.zip"
    if fmt == "tar":
        comp = rng.choice(["", "gz"])
        return L.build_tar(members, comp), "P.tar" + ("." + comp if comp else "")
    return L.build_7z(members, rng.choice(["lzma2", "copy"]), rng.choice(["solid", "perfile"]), False, None, rng), "P.7z"


def worker_main(job_file, out_file):
    from .repo import activate
    from .tlc import MachineryError
    activate()
    import logging
    import tempfile
    import warnings
    warnings.simplefilter("ignore")
    logging.disable(logging.CRITICAL)
    job = json.loads(Path(job_file).read_text())
    os.makedirs(job["wroot"], exist_ok=True)
    tempfile.tempdir = job["wroot"]
    from sharepoint2text.parsing.extractors import archive_extractor as ae
    for n in ("read_archive", "configure_archive_extraction"):
        if not hasattr(ae, n):
            raise MachineryError(f"binding vanished: archive_extractor.{n}")
    L.make_doc("txt", [1])
    traces = []
    for h in job["histories"]:
        rng = random.Random(h["seed"])
        sizes = SIZES + (BIG if h.get("big") else [])
        archives = [probe_archive(rng.choice(["zip", "tar", "7z"]), sizes, rng) for _ in range(len(h["calls"]) + 1)]

        def run():
            ev = []

            def probe(k):
                data, ap = archives[k]
                got = set()
                try:
                    for r in ae.read_archive(io.BytesIO(data), ap):
                        got.add(os.path.basename(getattr(r.get_metadata(), "file_path", "") or ""))
                except Exception as e:  # noqa
                    got.add("raise:" + type(e).__name__)
                ev.append({"a": "Probe", "fmt": ap, "sizes": sizes,
                           "yielded": [1 if f"p{i}.txt" in got else 0 for i in range(1, len(sizes) + 1)]})
            probe(0)
            for k, c in enumerate(h["calls"], start=1):
                kw = {}
                if c["buffer_size"]:
                    kw["buffer_size"] = c["buffer_size"]
                if c["max_memory_size"]:
                    kw["max_memory_size"] = c["max_memory_size"]
                if c["max_workers"]:
                    kw["max_workers"] = c["max_workers"]
                if c["enable_parallel"]:
                    kw["enable_parallel"] = False
                ae.configure_archive_extraction(**kw)
                ev.append({"a": "Configure", **c})
                probe(k)
            return ev
        ev = in_child(run)
        if ev is None:
            raise MachineryError(f"configuration history {h['id']} died")
        traces.append({"id": h["id"], "hdr": {"n": len(h["calls"])}, "ev": ev})
    Path(out_file).write_text(json.dumps(traces))


if __name__ == "__main__":
    worker_main(sys.argv[1], sys.argv[2])
