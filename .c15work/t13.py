import io, sys, time, logging
logging.disable(logging.CRITICAL)
import sharepoint2text
import pypdf._crypt_providers._fallback as fb
o=fb.aes_cbc_decrypt
for n in sys.argv[1:]:
    t0=time.time()
    try:
        r=list(sharepoint2text.read_file(n)); out=('OK',len(r[0].get_full_text()))
    except Exception as e: out=('EXC',type(e).__name__, repr(e.__cause__)[:80])
    print(n, out, 'patched', fb.aes_cbc_decrypt is not o, round(time.time()-t0,2))
