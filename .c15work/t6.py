import io, logging, sys
logging.disable(logging.CRITICAL)
from mbv import repo; repo.activate()
from mbv.c15_docs import *
from sharepoint2text.parsing.extractors.pdf import pdf_extractor as pe
for n,b in [("fA",font_doc("f",[1,2])),("fB",font_doc("f",[3,4]))]:
    pe._FONT_CACHE.clear()
    r=list(pe.read_pdf(io.BytesIO(b), path=n))[0]
    print(n, repr(r.get_full_text()), pe._FONT_CACHE.values())
