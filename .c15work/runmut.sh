#!/bin/sh
# usage: runmut.sh <name>
n=$1; wt=/tmp/wt-c15-$n
git -C /repo worktree remove --force $wt >/dev/null 2>&1
git -C /repo worktree add $wt HEAD >/dev/null 2>&1 || exit 3
cd $wt && git apply /verif/proposed_fixes/c15-pdf-patch-lock.diff && git apply /verif/proposed_fixes/c15-font-cache-key.diff || exit 3
/venv/bin/python /verif/.c15work/mutate.py $wt $n || exit 3
( cd $wt && /venv/bin/python -m pytest -q -p no:cacheprovider sharepoint2text/tests 2>&1 | tail -1 ) > /verif/.c15work/mut-$n.pytest 2>&1
cd /verif && SP2T_REPO=$wt ./check C15 > /verif/.c15work/mut-$n.log 2>&1
echo "exit=$?" >> /verif/.c15work/mut-$n.log
git -C /repo worktree remove --force $wt >/dev/null 2>&1; git -C /repo worktree prune
