import time, os, resource
from pathlib import Path
from mbv.tlc import run_tlc
from mbv.props.c15 import _ps_cfg, _gl_cfg
sc = Path('/verif/.c15work/tlc'); sc.mkdir(exist_ok=True)
def cpu(): 
    r=resource.getrusage(resource.RUSAGE_CHILDREN); return r.ru_utime+r.ru_stime
for w in ("auto", 1, 4):
    c0=cpu(); t0=time.time()
    run_tlc("PatchSection", _ps_cfg(3,2,True,invs=("Residue",)), scratch=sc, workers=w)
    print("small", w, round(cpu()-c0,1), round(time.time()-t0,1))
for w in ("auto", 4):
    c0=cpu(); t0=time.time()
    run_tlc("PatchSection", _ps_cfg(3,1,False,raises=False,track=True), scratch=sc, workers=w, dump=sc/"x.dump", heap="6g")
    print("enum31", w, round(cpu()-c0,1), round(time.time()-t0,1))
