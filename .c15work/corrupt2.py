import copy, json
from pathlib import Path
from mbv.traces import validate
from mbv.props.c15 import _gl_cfg
sc = Path('/verif/.c15work/tlc'); sc.mkdir(exist_ok=True)
ev = [{"a":"Extract","d":"font","f":"f","g":[1,2],"out":"ok","gl":[1,2],"same":True},
      {"a":"Extract","d":"font","f":"f","g":[3,4],"out":"ok","gl":[3,4],"same":True},
      {"a":"Extract","d":"plain","f":"","g":[],"out":"same","gl":[],"same":True},
      {"a":"Extract","d":"aesU","f":"","g":[],"out":"fail","gl":[],"same":True},
      {"a":"Residue","fns":True,"cfg":True,"tmp":True,"fds":True}]
base={"id":"orig","hdr":{"docs":["x"]},"ev":ev}
def mut(name,i,k,val):
    t=copy.deepcopy(base); t["id"]=name; t["ev"][i][k]=val; return t
traces=[base, mut("gl-lost-digit",1,"gl",[3]), mut("digest-differs",2,"same",False), mut("plain-differs",2,"out","differs"),
        mut("aesU-ok",3,"out","ok"), mut("fns-changed",4,"fns",False), mut("tmp-leak",4,"tmp",False)]
for dev in ([], ["PermanentAesPatch"], ["FontCacheKeyedByFontOnly"]):
    cfg="SPECIFICATION TraceSpec\nCONSTRAINT TraceAccept\n"+_gl_cfg(dev,1).split("\n",1)[1]
    br=validate("Globals",cfg,traces,scratch=sc,parallel=1,min_chunk=100,diagnose=10)
    print(dev, [(t["id"], "acc" if v.accepted else f"rej@{v.reached+1}") for t,v in zip(traces,br.verdicts)])
