import io, logging, sys
logging.disable(logging.CRITICAL)
from mbv import repo; repo.activate()
from mbv.c15_docs import *
from sharepoint2text.parsing.extractors.pdf import pdf_extractor as pe
import pypdf._page as pg
orig = pg.build_char_map
docs = dict(failing_pdfs())
docs["fA"] = font_doc("f",[1,2]); docs["fB"]=font_doc("f",[3,4]); docs["gA"]=font_doc("g",[1,2,3])
for n,b in docs.items():
    calls=[]
    try:
        r=list(pe.read_pdf(io.BytesIO(b), path=n))[0]
        print(n, repr(r.get_full_text()), resolved_glyphs(r.get_full_text(), [1,2,3] if n=="gA" else [1,2] if n=="fA" else [3,4]))
    except Exception as e:
        import traceback
        tb = traceback.extract_tb(e.__cause__.__traceback__) if e.__cause__ else []
        print(n, 'EXC', type(e).__name__, repr(e.__cause__)[:80], [f.name for f in tb][:6], pg.build_char_map is orig)
