"""apply one named mutation to a worktree that already has both proposed fixes"""
import sys
from pathlib import Path

wt, name = Path(sys.argv[1]), sys.argv[2]
pe = wt / "sharepoint2text/parsing/extractors/pdf/pdf_extractor.py"
ax = wt / "sharepoint2text/parsing/extractors/archive_extractor.py"
ini = wt / "sharepoint2text/__init__.py"

LOCKED = '''    with _PYPDF_PATCH_LOCK:
        # Store originals and apply patches
        originals: list[tuple[Any, str, Any]] = []
        for module, func_name in patch_targets:
            original = getattr(module, func_name)
            originals.append((module, func_name, original))
            patched = make_wrapper(original)
            setattr(module, func_name, patched)

        try:
            yield
        finally:
            # Restore all originals
            for module, func_name, original in originals:
                setattr(module, func_name, original)
'''


def sub(path, old, new, count=1):
    s = path.read_text()
    assert s.count(old) >= 1, (path, old[:60])
    path.write_text(s.replace(old, new, count))


if name == "m1_nolock":            # the original defect
    sub(pe, LOCKED, '''    if True:
        originals: list[tuple[Any, str, Any]] = []
        for module, func_name in patch_targets:
            original = getattr(module, func_name)
            originals.append((module, func_name, original))
            patched = make_wrapper(original)
            setattr(module, func_name, patched)

        try:
            yield
        finally:
            for module, func_name, original in originals:
                setattr(module, func_name, original)
''')
elif name == "m2_narrow_lock":     # lock only around the individual save/patch and restore phases
    sub(pe, LOCKED, '''    with _PYPDF_PATCH_LOCK:
        originals: list[tuple[Any, str, Any]] = []
        for module, func_name in patch_targets:
            original = getattr(module, func_name)
            originals.append((module, func_name, original))
            patched = make_wrapper(original)
            setattr(module, func_name, patched)

    try:
        yield
    finally:
        with _PYPDF_PATCH_LOCK:
            for module, func_name, original in originals:
                setattr(module, func_name, original)
''')
elif name == "m3_no_finally":      # restore skipped when the body raises
    sub(pe, LOCKED, '''    with _PYPDF_PATCH_LOCK:
        originals: list[tuple[Any, str, Any]] = []
        for module, func_name in patch_targets:
            original = getattr(module, func_name)
            originals.append((module, func_name, original))
            patched = make_wrapper(original)
            setattr(module, func_name, patched)

        yield
        for module, func_name, original in originals:
            setattr(module, func_name, original)
''')
elif name == "m4_font_cache_key":  # the original defect
    sub(pe, "    cache_key = (font_data, tuple(sorted(set(glyph_ids))))\n", "    cache_key = font_data\n")
elif name == "m5_second_patch":    # a second third-party attribute patched and never restored
    sub(pe, "            setattr(module, func_name, patched)\n\n        try:",
        "            setattr(module, func_name, patched)\n            import pypdf._cmap as _cm\n"
        "            if getattr(_cm.build_char_map, '__name__', '') != 'patched':\n"
        "                _cm.build_char_map = patched\n\n        try:")
elif name == "m6_temp_leak":       # 7z extraction directory never removed
    sub(ax, "            with tempfile.TemporaryDirectory() as temp_dir:\n", "            temp_dir = tempfile.mkdtemp()\n            if True:\n")
elif name == "m7_config_side_effect":
    sub(ax, "            with tempfile.TemporaryDirectory() as temp_dir:\n",
        "            configure_archive_extraction(max_memory_size=_config.max_memory_size // 2)\n"
        "            with tempfile.TemporaryDirectory() as temp_dir:\n")
elif name == "m8_fd_leak":
    sub(ini, '    with open(path, "rb") as f:\n', '    _LEAK.append(open(path, "rb"))\n    with open(path, "rb") as f:\n')
    s = ini.read_text()
    ini.write_text(s + "\n_LEAK: list = []\n")
elif name == "m9_restore_stale":   # restores the binding found at restore time minus nothing: writes `patched` back
    sub(pe, "            for module, func_name, original in originals:\n                setattr(module, func_name, original)\n",
        "            for module, func_name, original in originals:\n                setattr(module, func_name, getattr(original, '__wrapped__', original) if False else patched)\n")
elif name == "m10_aes_patch_only_on_open_failure":   # revert of repo fix f4a7d41
    sub(pe, "    if reader.is_encrypted:\n", "    if False and reader.is_encrypted:\n")
elif name == "n1_plain_lock":      # negative control: a non-reentrant Lock is just as good
    sub(pe, "_PYPDF_PATCH_LOCK = threading.RLock()", "_PYPDF_PATCH_LOCK = threading.Lock()")
else:
    raise SystemExit("unknown mutation " + name)
print("applied", name)
