import io, time, glob, json, hashlib, logging, os
logging.disable(logging.CRITICAL)
import sharepoint2text
root='/repo/sharepoint2text/tests/resources'
tot=0
for d,_,fs in sorted(os.walk(root)):
    for f in sorted(fs):
        p=os.path.join(d,f)
        t0=time.time()
        try:
            rs=list(sharepoint2text.read_file(p))
            dg=hashlib.sha256(json.dumps([r.to_json() for r in rs],sort_keys=True,default=repr).encode()).hexdigest()[:10]
            out=('OK',len(rs),dg)
        except Exception as e:
            out=('EXC',type(e).__name__)
        dt=time.time()-t0; tot+=dt
        print(p[len(root)+1:], os.path.getsize(p), round(dt,2), out)
print('total',round(tot,1))
