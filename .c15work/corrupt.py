import copy, json
from pathlib import Path
from mbv.c15_sched import Harness
from mbv.traces import validate
from mbv.props.c15 import PS_CONST
sc = Path('/verif/.c15work/tlc'); sc.mkdir(exist_ok=True)
with Harness(scheduled=True) as h:
    ev, note = h.run_schedule(2, 1, [1,2,1,2,1,2,1,2], [[True],[False]])
base = {"id":"orig","hdr":{"k":2},"ev":ev}
def mut(name, f):
    t = copy.deepcopy(base); t["id"]=name; f(t["ev"]); return t
def set_field(i, k, val):
    def f(evs): evs[i][k] = val
    return f
idx_get = [i for i,e in enumerate(ev) if e["a"]=="Get"]
idx_blk = [i for i,e in enumerate(ev) if e["a"]=="Blocked"]
idx_set = [i for i,e in enumerate(ev) if e["a"]=="Set"]
traces = [base,
  mut("get-value-corrupted", set_field(idx_get[1], "fn", [1])),
  mut("write-chain-corrupted", set_field(idx_set[0], "fn", [2])),
  mut("blocked-dropped->thread", set_field(idx_blk[0], "t", 1)),
  mut("restore-value-corrupted", set_field(idx_set[1], "fn", [1])),
  mut("quiescent-residue", set_field(len(ev)-1, "fn", [1])),
]
cfg = ("SPECIFICATION TraceSpec\nCONSTRAINT TraceAccept\n" + PS_CONST % ("1,2,3,4,5,6,7,8", 1000000, "TRUE", "TRUE", "TRUE", "FALSE"))
br = validate("PatchSectionTrace", cfg, traces, scratch=sc, parallel=1, min_chunk=100, diagnose=10)
for t, v in zip(traces, br.verdicts):
    print(t["id"], "accepted" if v.accepted else f"REJECTED at event {v.reached+1}: {t['ev'][v.reached]}")
print(json.dumps(ev))
