import time
from mbv.c15_sched import Harness
with Harness(scheduled=True) as h:
    print("locks:", h.b.locks)
    t0=time.time()
    ev, note = h.run_schedule(2, 1, [1,2,1,2,1,2,1,2], [[False],[False]])
    print(round(time.time()-t0,1), note); print(ev)
    t0=time.time()
    ev, note = h.run_schedule(2, 1, [1,1,2,2,1,1,2,2], [[False],[False]])
    print(round(time.time()-t0,1), note); print(ev)
