import io, logging, sys, traceback
logging.disable(logging.CRITICAL)
from mbv import repo; repo.activate()
from mbv.c15_docs import *
from sharepoint2text.parsing.extractors.pdf import pdf_extractor as pe
base = font_doc("f",[1,2])
cands = {
 "tf-missing": base.replace(b"/F1 12 Tf", b"/F1 Tf   "),
 "font-int": base.replace(b"/Font << /F1 5 0 R >>", b"/Font << /F1 4 0 R >>"),
 "desc-missing": base.replace(b"/DescendantFonts [6 0 R]", b"/DescendantFonts [3 0 R]"),
 "tm-bad": base.replace(b"72 700 Td", b"(a) (b) Td"),
 "encoding-bad": base.replace(b"/Encoding /Identity-H", b"/Encoding 7 0 R      "),
}
for n,b in cands.items():
    assert b != base and len(b)==len(base), n
    try:
        r=list(pe.read_pdf(io.BytesIO(b), path=n))[0]
        print(n, 'OK', repr(r.get_full_text()))
    except Exception as e:
        tb = traceback.extract_tb(e.__cause__.__traceback__) if e.__cause__ else []
        print(n, 'EXC', type(e).__name__, repr(e.__cause__)[:80], [f.name for f in tb][:8])
