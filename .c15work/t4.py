import io, time, glob, json, hashlib, logging
logging.disable(logging.CRITICAL)
import sharepoint2text
from sharepoint2text.parsing.extractors.pdf.pdf_extractor import read_pdf
for f in sorted(glob.glob('/repo/sharepoint2text/tests/resources/pdf/*.pdf')):
    t0=time.time(); r=list(read_pdf(io.BytesIO(open(f,'rb').read()), path=f))[0]
    t1=time.time(); d=hashlib.sha256(json.dumps(r.to_json(),sort_keys=True).encode()).hexdigest()[:10]
    print(f.split('/')[-1], len(r.pages), round(t1-t0,2), round(time.time()-t1,2), d, '\\u0000' in json.dumps(r.to_json()))
