from pathlib import Path
from mbv.tlc import run_tlc
from mbv.props.c15 import _gl_cfg
sc = Path('/verif/.c15work/tlc'); sc.mkdir(exist_ok=True)
for dev, inv, exp in (([], ("HistoryIndependent","ResidueFree","CacheShape"), None),
                 (["PermanentAesPatch"], ("HistoryIndependent",), None),
                 (["PermanentAesPatch"], ("ResidueFree",), "ResidueFree"),
                 (["AesPatchOnlyOnOpenFailure"], ("HistoryIndependent","ResidueFree"), None),
                 (["PermanentAesPatch","AesPatchOnlyOnOpenFailure"], ("HistoryIndependent",), "HistoryIndependent")):
    r = run_tlc("Globals", _gl_cfg(dev, 3, inv), scratch=sc, expect_fail=True, workers=2); print(dev, inv, r.distinct, r.violated, "expected", exp)
