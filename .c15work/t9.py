from pathlib import Path
from mbv.tlc import run_tlc
sc = Path('/verif/.c15work/tlc'); sc.mkdir(exist_ok=True)
def cfg(dev, maxlen=3, invs=("HistoryIndependent","ResidueFree","CacheShape")):
    return ('SPECIFICATION Spec\nCONSTANTS Deviations = {%s}\n Fonts = {"f","g"}\n GidSets = {{1,2},{3,4},{1,2,3}}\n MaxLen = %d\n' % (",".join('"%s"'%d for d in dev), maxlen)
            + "".join(f"INVARIANT {i}\n" for i in invs))
r = run_tlc("Globals", cfg([]), scratch=sc); print("ref", r.distinct, r.generated, r.ok)
r = run_tlc("Globals", cfg(["FontCacheKeyedByFontOnly"], invs=("HistoryIndependent",)), scratch=sc, expect_fail=True); print("font", r.distinct, r.violated); print(r.trace[-1][:600])
r = run_tlc("Globals", cfg(["PermanentAesPatch"], invs=("HistoryIndependent",)), scratch=sc, expect_fail=True); print("aes", r.distinct, r.violated); print(r.trace[-1][:600])
r = run_tlc("Globals", cfg(["PermanentAesPatch"], invs=("ResidueFree",)), scratch=sc, expect_fail=True); print("aes", r.distinct, r.violated)
