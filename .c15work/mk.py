import json
from pathlib import Path
from mbv import c15_docs, REPO
sc=Path('/verif/.c15work/run'); docdir=sc/'docs'; docdir.mkdir(exist_ok=True)
res_root = REPO / "sharepoint2text" / "tests" / "resources"
docs={}
for p in sorted(res_root.rglob("*")):
    if p.is_file(): docs["fx:" + str(p.relative_to(res_root))] = {"path": str(p), "cls": "plain", "f": "", "g": []}
for name, data in c15_docs.failing_pdfs().items():
    (docdir / name).write_bytes(data); docs["gen:" + name] = {"path": str(docdir / name), "cls": "plain", "f": "", "g": []}
for f in ["f","g"]:
    for g in [[1,2],[3,4],[1,2,3]]:
        name = f"font-{f}-{'.'.join(map(str, g))}.pdf"
        (docdir / name).write_bytes(c15_docs.font_doc(f, g))
        docs[f"font:{f}:{'.'.join(map(str, g))}"] = {"path": str(docdir / name), "cls": "font", "f": f, "g": g}
(sc/'docs.json').write_text(json.dumps(docs))
pdf_ids = [d for d in docs if d.startswith("fx:pdf/") or d.startswith("gen:") and d.endswith(".pdf")] + ["font:f:1.2", "font:g:3.4"]
(sc/'stress.in.json').write_text(json.dumps({"seed": 1, "threads": 8, "per_thread": 7, "docs": {d: docs[d] for d in pdf_ids}}))
