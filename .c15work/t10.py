import sys, json, logging
logging.disable(logging.CRITICAL)
import sharepoint2text
rs=list(sharepoint2text.read_file(sys.argv[1]))
print(json.dumps([r.to_json() for r in rs], sort_keys=True, default=repr, indent=0))
